fn main() {}
