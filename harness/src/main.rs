use harness::{engine, props};

use engine::*;
use std::collections::BTreeSet;
use std::sync::Arc;

fn usage() -> ! {
  eprintln!("usage: arxv check --property <ID> [--tier quick|thorough] [--seed N] [--only <sub>] | replay <file> | selftest | sample <ID> <sub> [n]");
  std::process::exit(2)
}

fn root_dir() -> String {
  std::env::var("VERIF_ROOT").unwrap_or_else(|_| "/verif".to_string())
}

fn arg_val(args: &[String], name: &str) -> Option<String> {
  args.iter().position(|a| a == name).and_then(|i| args.get(i + 1).cloned())
}

fn watchdog(secs: u64) {
  std::thread::spawn(move || {
    std::thread::sleep(std::time::Duration::from_secs(secs));
    eprintln!("watchdog: check exceeded {} s wall clock: inconclusive", secs);
    std::process::exit(2);
  });
}

fn main() {
  let args: Vec<String> = std::env::args().skip(1).collect();
  if args.is_empty() {
    usage();
  }
  let root = root_dir();
  match args[0].as_str() {
    "selftest" => {
      let f = arx_rt::selftest::run_all(100);
      if f.is_empty() {
        println!("selftest ok");
      } else {
        println!("selftest FAILED: {:#?}", f);
        std::process::exit(3);
      }
    }
    "check" => {
      let pid = arg_val(&args, "--property").unwrap_or_else(|| usage());
      let tier = match arg_val(&args, "--tier").or_else(|| std::env::var("VERIF_TIER").ok()).as_deref() {
        Some("thorough") => Tier::Thorough,
        _ => Tier::Quick,
      };
      let seed: u64 = arg_val(&args, "--seed")
        .or_else(|| std::env::var("VERIF_SEED").ok())
        .and_then(|s| s.parse().ok())
        .unwrap_or(20261002);
      let only = arg_val(&args, "--only");
      watchdog(tier.pick(900, 5400));
      std::process::exit(run_check(&root, &pid, tier, seed, only));
    }
    "replay" => {
      let path = args.get(1).cloned().unwrap_or_else(|| usage());
      std::process::exit(run_replay(&root, &path, true));
    }
    _ => usage(),
  }
}

fn mk_ctx(root: &str, tier: Tier, seed: u64, exclusions: BTreeSet<String>) -> props::Ctx {
  let shards = std::env::var("VERIF_SHARDS").ok().and_then(|s| s.parse().ok()).unwrap_or(tier.pick(8, 16));
  props::Ctx { tier, seed, root: root.to_string(), exclusions: Arc::new(exclusions), shards }
}

fn replay_value(ctx: &props::Ctx, rf: &ReplayFile) -> Result<Report, String> {
  for p in props::all() {
    if p.id == rf.property {
      for s in &p.subs {
        if s.name == rf.check {
          return (s.replay)(ctx, &rf.case);
        }
      }
    }
  }
  Err(format!("unknown property/check {}/{}", rf.property, rf.check))
}

/// returns Ok(report) of re-running a replay file
fn replay_report(ctx: &props::Ctx, path: &str) -> Result<(ReplayFile, Report), String> {
  let text = std::fs::read_to_string(path).map_err(|e| format!("{}: {}", path, e))?;
  let rf: ReplayFile = serde_json::from_str(&text).map_err(|e| format!("{}: {}", path, e))?;
  let rep = replay_value(ctx, &rf).map_err(|e| format!("{}: {}", path, e))?;
  Ok((rf, rep))
}

/// replace every field called "sched" in a case by the given schedule; false if none
fn set_sched(v: &mut serde_json::Value, sched: &serde_json::Value) -> bool {
  let mut found = false;
  match v {
    serde_json::Value::Object(m) => {
      for (k, x) in m.iter_mut() {
        if k == "sched" {
          *x = sched.clone();
          found = true;
        } else if set_sched(x, sched) {
          found = true;
        }
      }
    }
    serde_json::Value::Array(a) => {
      for x in a.iter_mut() {
        if set_sched(x, sched) {
          found = true;
        }
      }
    }
    _ => {}
  }
  found
}

/// Does the probe of an open known finding still fail? A probe with a schedule is a
/// *scenario*: the stored schedule is tried first, then a fixed family of 600 schedules
/// (the exact interleaving that fails moves whenever any scheduling point is added or
/// removed anywhere, the race itself does not).
fn probe_still_fails(ctx: &props::Ctx, path: &str) -> Result<bool, String> {
  let (rf, rep) = replay_report(ctx, path)?;
  if rep.fail.is_some() {
    return Ok(true);
  }
  let mut x: u64 = 0x9E3779B97F4A7C15;
  for i in 0..600u64 {
    x = x.wrapping_mul(6364136223846793005).wrapping_add(1442695040888963407);
    let pct: u64 = [10, 25, 50][(i % 3) as usize];
    let seed: u64 = x | 1;
    let sched = serde_json::json!({
      "overrides": [],
      "walk": [seed, pct],
      "hash_seed": i % 4,
      "notify_lifo": i % 2 == 1,
    });
    let mut rf2 = rf.clone();
    if !set_sched(&mut rf2.case, &sched) {
      return Ok(false);
    }
    if let Ok(rep) = replay_value(ctx, &rf2) {
      if rep.fail.is_some() {
        return Ok(true);
      }
    }
  }
  Ok(false)
}

fn run_replay(root: &str, path: &str, verbose: bool) -> i32 {
  let ctx = mk_ctx(root, Tier::Quick, 0, BTreeSet::new());
  match replay_report(&ctx, path) {
    Ok((rf, rep)) => match rep.fail {
      Some(m) => {
        if verbose {
          eprintln!("{}", m);
        }
        println!("VIOLATION property={} replay={}", rf.property, path);
        1
      }
      None => {
        // schedule-carrying files: also the family of schedules (see probe_still_fails)
        if let Ok(true) = probe_still_fails(&ctx, path) {
          if verbose {
            eprintln!("the stored schedule holds, but the scenario fails under another schedule of the family");
          }
          println!("VIOLATION property={} replay={}", rf.property, path);
          return 1;
        }
        if verbose {
          println!("replay holds: {}", rep.sample.unwrap_or_default());
        }
        0
      }
    },
    Err(e) => {
      eprintln!("replay error: {}", e);
      2
    }
  }
}

fn run_check(root: &str, pid: &str, tier: Tier, seed: u64, only: Option<String>) -> i32 {
  let t0 = std::time::Instant::now();
  let prop = match props::all().into_iter().find(|p| p.id == pid) {
    Some(p) => p,
    None => {
      eprintln!("unknown property {}", pid);
      return 2;
    }
  };
  // known findings: replay each open finding's probe; still failing => report + exclude
  let known = load_known(root);
  let mut exclusions = BTreeSet::new();
  let mut known_lines = Vec::new();
  let probe_ctx = mk_ctx(root, tier, seed, BTreeSet::new());
  for k in known.findings.iter().filter(|k| k.status == "open") {
    let still = match &k.probe {
      Some(p) => match probe_still_fails(&probe_ctx, &format!("{}/{}", root, p)) {
        Ok(b) => b,
        Err(e) => {
          eprintln!("known finding {}: probe unusable: {}", k.id, e);
          false
        }
      },
      None => false,
    };
    if still {
      if let Some(x) = &k.exclude {
        for sw in x.split(',') {
          exclusions.insert(sw.trim().to_string());
        }
      }
      if k.property == pid {
        known_lines.push(format!("KNOWN-FINDING: property={} {} [{}]", k.property, k.what, k.id));
      }
    }
  }
  // debugging aid: extra exclusion switches (never set by registered commands)
  if let Ok(x) = std::env::var("VERIF_EXTRA_EXCLUDE") {
    for sw in x.split(',').filter(|s| !s.is_empty()) {
      exclusions.insert(sw.to_string());
    }
  }
  let ctx = mk_ctx(root, tier, seed, exclusions.clone());
  // regression tier: replay committed files for this property (known/ probes of *fixed*
  // findings and regress/ files must hold)
  let mut replayed = Vec::new();
  let fixed_probes: Vec<String> = known
    .findings
    .iter()
    .filter(|k| k.status == "fixed" && k.property == pid)
    .filter_map(|k| k.probe.clone())
    .collect();
  let mut files: Vec<String> = fixed_probes.into_iter().map(|p| format!("{}/{}", root, p)).collect();
  if let Ok(rd) = std::fs::read_dir(format!("{}/regress", root)) {
    let mut v: Vec<String> = rd
      .filter_map(|e| e.ok())
      .map(|e| e.path().to_string_lossy().to_string())
      .filter(|p| p.ends_with(".json") && p.contains(&format!("/{}-", pid)))
      .collect();
    v.sort();
    files.extend(v);
  }
  files.sort();
  files.dedup();
  for f in files {
    match replay_report(&ctx, &f) {
      Ok((_, rep)) => {
        let mut held = rep.fail.is_none();
        if let Some(m) = &rep.fail {
          eprintln!("[{}] regression file {} fails: {}", pid, f, m);
        } else {
          // a file that carries a schedule is a scenario: the stored interleaving is only
          // exact on the tree and runtime it was found on, so the same family of schedules
          // as for known-finding probes is tried as well
          match probe_still_fails(&ctx, &f) {
            Ok(true) => {
              eprintln!("[{}] regression scenario {} fails under another schedule", pid, f);
              held = false;
            }
            _ => {}
          }
        }
        replayed.push((f, held));
      }
      Err(e) => eprintln!("[{}] regression file skipped: {}", pid, e),
    }
  }
  let mut subs = Vec::new();
  let mut skipped = Vec::new();
  for s in &prop.subs {
    if let Some(o) = &only {
      if o != s.name {
        skipped.push(format!("{} (not selected)", s.name));
        continue;
      }
    }
    let r = (s.run)(&ctx);
    eprintln!(
      "[{}:{}] evaluations={} nontrivial={} wall={:.1}s{}",
      pid,
      s.name,
      r.evaluations,
      r.nontrivial_distinct,
      r.wall_s,
      if r.failure.is_some() { " FAILED" } else { "" }
    );
    subs.push(r);
  }
  let out = CheckOutput {
    property: pid.to_string(),
    tier,
    seed,
    rule: prop.rule.to_string(),
    assumptions: prop.assumptions.iter().map(|s| s.to_string()).collect(),
    subs,
    known_lines,
    exclusions_active: exclusions.into_iter().collect(),
    replayed,
    skipped,
  };
  finish(root, out, t0.elapsed().as_secs_f64())
}
