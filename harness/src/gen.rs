//! proptest strategies for pipelines, scripts, driver histories and schedules.

use crate::ast::*;
use crate::val::*;
use arx_rt::Schedule;
use proptest::prelude::*;

pub fn small() -> BoxedStrategy<i64> {
  (-3i64..=6).boxed()
}

pub fn count_param() -> BoxedStrategy<usize> {
  prop_oneof![4 => 0usize..=5, 1 => 6usize..=9].boxed()
}

/// sizes beyond the handful the other generators use (the `large` sub-checks): tens of
/// elements, and the neighbourhood of the powers of two a narrowing cast or a fixed capacity
/// would trip over
pub fn count_big() -> BoxedStrategy<usize> {
  prop_oneof![
    2 => 0usize..=9,
    4 => 10usize..=70,
    1 => prop::sample::select(vec![127usize, 128, 129, 255, 256, 257, 300]),
  ]
  .boxed()
}

/// counts a caller writes for "no limit", and the neighbourhood of the narrower integer types
pub fn count_huge() -> BoxedStrategy<usize> {
  prop::sample::select(vec![
    65_535usize,
    65_536,
    u32::MAX as usize,
    u32::MAX as usize + 1,
    isize::MAX as usize,
    isize::MAX as usize + 1,
    usize::MAX - 1,
    usize::MAX,
  ])
  .boxed()
}

fn count_for(cfg: &GenCfg) -> BoxedStrategy<usize> {
  if cfg.big {
    prop_oneof![6 => count_big(), 1 => count_huge()].boxed()
  } else {
    count_param()
  }
}

/// like `count_for`, never 0
fn count1_for(cfg: &GenCfg, small_max: usize) -> BoxedStrategy<usize> {
  if cfg.big {
    count_big().prop_map(|n| n.max(1)).boxed()
  } else {
    (1usize..=small_max).boxed()
  }
}

pub fn mapf() -> BoxedStrategy<MapF> {
  prop_oneof![
    small().prop_map(MapF::Add),
    (-2i64..=3).prop_map(MapF::Mul),
    (1i64..=4).prop_map(MapF::Mod),
    Just(MapF::Neg),
    small().prop_map(MapF::Const),
  ]
  .boxed()
}

pub fn pred() -> BoxedStrategy<Pred> {
  prop_oneof![
    small().prop_map(Pred::Lt),
    small().prop_map(Pred::Ge),
    small().prop_map(Pred::Eq),
    small().prop_map(Pred::Ne),
    Just(Pred::Even),
    Just(Pred::True),
    Just(Pred::False),
  ]
  .boxed()
}

pub fn fold() -> BoxedStrategy<Fold> {
  prop_oneof![Just(Fold::Add), Just(Fold::Max), Just(Fold::Mix)].boxed()
}

/// how a script ends
#[derive(Clone, Copy, Debug, PartialEq, Eq)]
pub enum Ending {
  Complete,
  Error,
  Silent,
}

pub fn items(max: usize) -> BoxedStrategy<Vec<i64>> {
  prop::collection::vec(small(), 0..=max).boxed()
}

/// well-formed script: items then complete / error / silence
pub fn script_wf(max: usize, err_weight: u32) -> BoxedStrategy<Vec<Ev>> {
  (items(max), prop_oneof![4 => Just(0u8), err_weight => Just(1u8), 1 => Just(2u8)], 1u32..=4)
    .prop_map(|(it, end, code)| {
      let mut s: Vec<Ev> = it.into_iter().map(Ev::N).collect();
      match end {
        0 => s.push(Ev::C),
        1 => s.push(Ev::E(code)),
        _ => {}
      }
      s
    })
    .boxed()
}

/// arbitrary event list (ill-formed sources: events after a terminal, doubled terminals)
pub fn script_any(max: usize) -> BoxedStrategy<Vec<Ev>> {
  prop::collection::vec(
    prop_oneof![4 => small().prop_map(Ev::N), 1 => (1u32..=3).prop_map(Ev::E), 1 => Just(Ev::C)],
    0..=max,
  )
  .boxed()
}

#[derive(Clone, Debug)]
pub struct GenCfg {
  pub depth: u32,
  pub max_nodes: u32,
  pub max_script: usize,
  pub nhot: usize,
  pub ill_formed: bool,
  /// weight of erroring scripts
  pub err_weight: u32,
  pub single: bool,
  pub combine: bool,
  pub recovery: bool,
  pub creation: bool,
  pub unbounded: bool,
  pub sched_default: bool,
  pub sched_new: bool,
  pub timed: bool,
  pub connectable: bool,
  pub window_group: bool,
  pub switch: bool,
  pub cold: bool,
  /// large parameters and long inputs (`count_big`)
  pub big: bool,
  /// operators / combinators excluded by name (known findings, property scoping)
  pub exclude: Vec<String>,
}

impl Default for GenCfg {
  fn default() -> Self {
    GenCfg {
      depth: 3,
      max_nodes: 14,
      max_script: 6,
      nhot: 0,
      ill_formed: false,
      err_weight: 1,
      single: true,
      combine: false,
      recovery: false,
      creation: true,
      unbounded: false,
      sched_default: false,
      sched_new: false,
      timed: false,
      connectable: false,
      window_group: true,
      switch: false,
      cold: true,
      big: false,
      exclude: vec![],
    }
  }
}

impl GenCfg {
  fn allowed(&self, name: &str) -> bool {
    !self.exclude.iter().any(|e| e == name)
  }
}

pub fn leaf(cfg: &GenCfg) -> BoxedStrategy<Node> {
  let mut alts: Vec<(u32, BoxedStrategy<Node>)> = Vec::new();
  let script = if cfg.ill_formed { script_any(cfg.max_script) } else { script_wf(cfg.max_script, cfg.err_weight) };
  if cfg.cold {
    alts.push((
      6,
      (script.clone(), any::<bool>())
        .prop_map(|(s, polite)| Node::Src(0, Src::Cold { script: s, polite }))
        .boxed(),
    ));
  }
  if cfg.nhot > 0 {
    alts.push((6, (0..cfg.nhot).prop_map(|i| Node::Src(0, Src::Hot(i))).boxed()));
  }
  if cfg.creation {
    alts.push((
      3,
      prop_oneof![
        small().prop_map(|k| Node::Src(0, Src::Just(k))),
        items(cfg.max_script).prop_map(|v| Node::Src(0, Src::FromIter(v))),
        if cfg.big {
          (small(), count_big()).prop_map(|(a, n)| Node::Src(0, Src::Range(a, n as i64))).boxed()
        } else {
          (small(), 0i64..=5).prop_map(|(a, n)| Node::Src(0, Src::Range(a, n))).boxed()
        },
        Just(Node::Src(0, Src::Empty)),
        Just(Node::Src(0, Src::Never)),
        small().prop_map(|k| Node::Src(0, Src::Start(k))),
        small().prop_map(|k| Node::Src(0, Src::FromResult(Ok(k)))),
        small().prop_map(|k| Node::Src(0, Src::Something(Ok(k)))),
      ]
      .boxed(),
    ));
    if cfg.err_weight > 0 {
      alts.push((
        1,
        prop_oneof![
          (1u32..=4).prop_map(|c| Node::Src(0, Src::Error(c))),
          (1u32..=4).prop_map(|c| Node::Src(0, Src::FromResult(Err(c)))),
          (1u32..=4).prop_map(|c| Node::Src(0, Src::Something(Err(c)))),
        ]
        .boxed(),
      ));
    }
  }
  if cfg.recovery {
    // a source whose k-th subscription differs
    alts.push((
      4,
      (prop::collection::vec(script_wf(cfg.max_script.min(4), 6), 1..=4), any::<bool>())
        .prop_map(|(s, polite)| Node::Src(0, Src::PerSub { scripts: s, polite }))
        .boxed(),
    ));
  }
  if cfg.unbounded {
    let rep = |k: i64| Box::new(Node::Src(0, Src::Repeat(k)));
    let endl = |a: i64| Box::new(Node::Src(0, Src::Endless(a)));
    let tk = || if cfg.big { count_big() } else { (0usize..=4).boxed() };
    let mut v: Vec<BoxedStrategy<Node>> = vec![
      (small(), tk()).prop_map(move |(k, n)| Node::Un(Op::Take(n), rep(k))).boxed(),
      (small(), tk()).prop_map(move |(a, n)| Node::Un(Op::Take(n), endl(a))).boxed(),
      small().prop_map(move |a| Node::Un(Op::First, endl(a))).boxed(),
      (small(), count1_for(cfg, 4)).prop_map(move |(a, n)| Node::Un(Op::ElementAt(n), endl(a))).boxed(),
      (small(), 0i64..=4).prop_map(move |(a, d)| Node::Un(Op::All(Pred::Lt(a + d)), endl(a))).boxed(),
    ];
    if cfg.allowed("take_while") {
      v.push(
        (small(), 0i64..=4).prop_map(move |(a, d)| Node::Un(Op::TakeWhile(Pred::Lt(a + d)), endl(a))).boxed(),
      );
      v.push((small(), pred_stopping()).prop_map(move |(k, p)| Node::Un(Op::TakeWhile(p), rep(k))).boxed());
    }
    if cfg.allowed("contains") {
      v.push((small(), 0i64..=4).prop_map(move |(a, d)| Node::Un(Op::Contains(a + d), endl(a))).boxed());
    }
    // the same with an operator that never ends the stream between the endless producer and
    // the operator that does: the end has to travel through it
    let through = {
      let mut ops = vec![Op::Map(MapF::Add(1)), Op::Filter(Pred::True), Op::Tap, Op::Scan(Fold::Max), Op::Distinct, Op::Skip(1)];
      if cfg.sched_default {
        ops.push(Op::SubscribeOnDefault);
        ops.push(Op::ObserveOnDefault);
      }
      prop::sample::select(ops)
    };
    v.push(
      (small(), 0usize..=3, through.clone(), any::<bool>())
        .prop_map(move |(a, n, op, r)| {
          let src = if r { rep(a) } else { endl(a) };
          // (distinct over repeat never lets a second item through: keep those bounded)
          let op = if r && matches!(op, Op::Distinct | Op::Skip(_)) { Op::Tap } else { op };
          Node::Un(Op::Take(n), Box::new(Node::Un(op, src)))
        })
        .boxed(),
    );
    v.push((small(), through).prop_map(move |(a, op)| Node::Un(Op::First, Box::new(Node::Un(op, endl(a))))).boxed());
    // ... and with the endless producer built by a defer factory: the end has to reach a
    // source that defer subscribed on the subscriber's behalf
    if cfg.creation {
      v.push(
        (small(), tk(), any::<bool>())
          .prop_map(move |(a, n, r)| Node::Un(Op::Take(n), Box::new(Node::Defer(0, if r { rep(a) } else { endl(a) }))))
          .boxed(),
      );
    }
    alts.push((3, proptest::strategy::Union::new(v).boxed()));
  }
  if cfg.timed {
    alts.push((
      2,
      prop_oneof![
        prop::sample::select(vec![10u64, 25]).prop_map(|d| Node::Src(0, Src::Interval(d))),
        prop::sample::select(vec![10u64, 25]).prop_map(|d| Node::Src(0, Src::Timer(d))),
      ]
      .boxed(),
    ));
  }
  if alts.is_empty() {
    return Just(Node::Src(0, Src::Empty)).boxed();
  }
  proptest::strategy::Union::new_weighted(alts).boxed()
}

/// predicates that are false for every value (so that take_while stops an endless repeat)
fn pred_stopping() -> BoxedStrategy<Pred> {
  prop_oneof![Just(Pred::False), Just(Pred::Lt(-100)), Just(Pred::Ge(100))].boxed()
}

pub fn unary_ops(cfg: &GenCfg) -> BoxedStrategy<Op> {
  let mut v: Vec<(u32, BoxedStrategy<Op>)> = Vec::new();
  if cfg.single {
    let all: Vec<(&str, BoxedStrategy<Op>)> = vec![
      ("map", mapf().prop_map(Op::Map).boxed()),
      ("filter", pred().prop_map(Op::Filter).boxed()),
      ("take", count_for(cfg).prop_map(Op::Take).boxed()),
      ("take_last", count_for(cfg).prop_map(Op::TakeLast).boxed()),
      ("take_while", pred().prop_map(Op::TakeWhile).boxed()),
      ("skip", count_for(cfg).prop_map(Op::Skip).boxed()),
      ("skip_last", count_for(cfg).prop_map(Op::SkipLast).boxed()),
      ("skip_while", pred().prop_map(Op::SkipWhile).boxed()),
      ("first", Just(Op::First).boxed()),
      ("last", Just(Op::Last).boxed()),
      ("element_at", count1_for(cfg, 6).prop_map(Op::ElementAt).boxed()),
      ("distinct", Just(Op::Distinct).boxed()),
      ("scan", fold().prop_map(Op::Scan).boxed()),
      ("reduce", fold().prop_map(Op::Reduce).boxed()),
      ("count", Just(Op::Count).boxed()),
      ("sum", Just(Op::Sum).boxed()),
      ("sum_and_count", Just(Op::SumAndCount).boxed()),
      ("min", Just(Op::Min).boxed()),
      ("max", Just(Op::Max).boxed()),
      ("all", pred().prop_map(Op::All).boxed()),
      ("contains", small().prop_map(Op::Contains).boxed()),
      ("default_if_empty", small().prop_map(Op::DefaultIfEmpty).boxed()),
      ("ignore_elements", Just(Op::IgnoreElements).boxed()),
      ("start_with", items(if cfg.big { 40 } else { 3 }).prop_map(Op::StartWith).boxed()),
      ("buffer", count1_for(cfg, 4).prop_map(Op::Buffer).boxed()),
      ("materialize", Just(Op::Materialize).boxed()),
      ("dematerialize", Just(Op::Dematerialize).boxed()),
      ("tap", Just(Op::Tap).boxed()),
      ("map_to_any", Just(Op::MapToAny).boxed()),
    ];
    for (n, s) in all {
      if cfg.allowed(n) {
        v.push((2, s));
      }
    }
    if cfg.window_group {
      if cfg.allowed("window") {
        v.push((2, count1_for(cfg, 4).prop_map(Op::Window).boxed()));
        v.push((1, count1_for(cfg, 3).prop_map(Op::WindowCounts).boxed()));
        v.push((1, count1_for(cfg, 3).prop_map(Op::WindowFirsts).boxed()));
      }
      if cfg.allowed("group_by") {
        v.push((2, (1i64..=3).prop_map(Op::GroupBy).boxed()));
        v.push((1, (1i64..=3).prop_map(Op::GroupFirsts).boxed()));
      }
    }
  }
  if cfg.recovery {
    if cfg.allowed("retry") {
      v.push((6, count1_for(cfg, 4).prop_map(Op::Retry).boxed()));
    }
    if cfg.allowed("retry_when") {
      v.push((
        6,
        prop_oneof![Just(RPred::Never), (1u32..=4).prop_map(RPred::CodeLt)].prop_map(Op::RetryWhen).boxed(),
      ));
    }
    v.push((3, Just(Op::Materialize).boxed()));
    v.push((3, Just(Op::Dematerialize).boxed()));
  }
  if cfg.sched_default {
    v.push((2, Just(Op::ObserveOnDefault).boxed()));
    v.push((2, Just(Op::SubscribeOnDefault).boxed()));
    v.push((1, Just(Op::Timestamp).boxed()));
    // (durations on the virtual clock; the reference interpreter does not model it, so only
    // the model-free checks see it here - its timing is C16's)
    v.push((1, Just(Op::TimeInterval).boxed()));
  }
  if cfg.sched_new {
    v.push((3, Just(Op::ObserveOnNew).boxed()));
    v.push((3, Just(Op::SubscribeOnNew).boxed()));
  }
  if cfg.timed {
    v.push((2, prop::sample::select(vec![5u64, 10]).prop_map(Op::Delay).boxed()));
    v.push((2, prop::sample::select(vec![10u64, 25]).prop_map(Op::Debounce).boxed()));
    v.push((2, prop::sample::select(vec![10u64, 25]).prop_map(Op::Timeout).boxed()));
  }
  if cfg.connectable {
    v.push((3, Just(Op::RefCount).boxed()));
    v.push((3, Just(Op::ReplayConn).boxed()));
  }
  if v.is_empty() {
    return Just(Op::Map(MapF::Add(0))).boxed();
  }
  proptest::strategy::Union::new_weighted(v).boxed()
}

pub fn node(cfg: &GenCfg) -> BoxedStrategy<Node> {
  let cfg = cfg.clone();
  let lf = leaf(&cfg);
  let c2 = cfg.clone();
  lf.prop_recursive(cfg.depth, cfg.max_nodes, 3, move |inner| {
    let cfg = c2.clone();
    let mut alts: Vec<(u32, BoxedStrategy<Node>)> = Vec::new();
    alts.push((
      10,
      (unary_ops(&cfg), inner.clone()).prop_map(|(op, n)| Node::Un(op, Box::new(n))).boxed(),
    ));
    if cfg.combine {
      let mut combs = vec![];
      for (n, c) in [
        ("merge", Comb::Merge),
        ("concat", Comb::Concat),
        ("zip", Comb::Zip),
        ("combine_latest", Comb::CombineLatest),
        ("amb", Comb::Amb),
        ("sequence_equal", Comb::SequenceEqual),
      ] {
        if cfg.allowed(n) {
          combs.push(c);
        }
      }
      if !combs.is_empty() {
        alts.push((
          8,
          (prop::sample::select(combs), prop::collection::vec(inner.clone(), 1..=4))
            .prop_map(|(c, v)| Node::Nary(c, v))
            .boxed(),
        ));
      }
      let mut gates = vec![];
      for (n, g) in [("take_until", Gate::TakeUntil), ("skip_until", Gate::SkipUntil), ("sample", Gate::Sample)] {
        if cfg.allowed(n) {
          gates.push(g);
        }
      }
      if cfg.switch {
        gates.push(Gate::SwitchOnNext);
      }
      if !gates.is_empty() {
        alts.push((
          5,
          (prop::sample::select(gates), inner.clone(), inner.clone())
            .prop_map(|(g, a, b)| Node::Gate(g, Box::new(a), Box::new(b)))
            .boxed(),
        ));
      }
      if cfg.allowed("flat_map") {
        alts.push((
          4,
          (inner.clone(), prop::collection::vec(inner.clone(), 1..=3))
            .prop_map(|(s, t)| Node::FlatMap(Box::new(s), t))
            .boxed(),
        ));
      }
    }
    if cfg.recovery && cfg.allowed("on_error_resume_next") {
      alts.push((
        5,
        (inner.clone(), prop::collection::vec(inner.clone(), 1..=3))
          .prop_map(|(s, t)| Node::Resume(Box::new(s), t))
          .boxed(),
      ));
    }
    if cfg.creation {
      alts.push((1, inner.clone().prop_map(|n| Node::Defer(0, Box::new(n))).boxed()));
    }
    proptest::strategy::Union::new_weighted(alts).boxed()
  })
  .prop_map(|mut n| {
    sanitize(&mut n, 0);
    n.renumber();
    n
  })
  .boxed()
}

/// Soundness of the generator: below `retry_when(code < k)` no source may fail for ever
/// with a code the predicate accepts (the pipeline would be unbounded by definition, in
/// the reference as well). Error codes of always-failing sources are lifted to `floor`.
fn sanitize(n: &mut Node, floor: u32) {
  let bump = |s: &mut Vec<Ev>, floor: u32| {
    for e in s.iter_mut() {
      if let Ev::E(c) = e {
        if *c < floor {
          *c = floor;
        }
      }
    }
  };
  match n {
    Node::Un(Op::RetryWhen(RPred::CodeLt(k)), inner) => {
      let f = floor.max(*k);
      sanitize(inner, f);
      return;
    }
    Node::Un(Op::ReplayConn, inner) if floor > 0 => {
      // replay() stores the first error for ever and hands it to every resubscription:
      // below it *no* script may fail with an accepted code
      fn bump_all(n: &mut Node, floor: u32) {
        if let Node::Src(_, s) = n {
          match s {
            Src::Cold { script, .. } => {
              for e in script.iter_mut() {
                if let Ev::E(c) = e {
                  *c = (*c).max(floor);
                }
              }
            }
            Src::PerSub { scripts, .. } => {
              for sc in scripts.iter_mut() {
                for e in sc.iter_mut() {
                  if let Ev::E(c) = e {
                    *c = (*c).max(floor);
                  }
                }
              }
            }
            Src::Error(c) | Src::FromResult(Err(c)) | Src::Something(Err(c)) => *c = (*c).max(floor),
            _ => {}
          }
        }
        for c in n.children_mut() {
          bump_all(c, floor);
        }
      }
      bump_all(inner, floor);
      sanitize(inner, floor);
      return;
    }
    Node::Nary(Comb::Amb, v) => {
      // whether amb subscribes inputs that cannot win any more is not fixed by any
      // property: keep sources with per-subscription behaviour out of amb
      fn flatten(n: &mut Node) {
        if let Node::Src(_, s) = n {
          if let Src::PerSub { scripts, polite } = s {
            *s = Src::Cold { script: scripts[0].clone(), polite: *polite };
          }
        }
        for c in n.children_mut() {
          flatten(c);
        }
      }
      for c in v.iter_mut() {
        flatten(c);
      }
    }
    Node::Src(_, s) => match s {
      Src::Cold { script, .. } => bump(script, floor),
      Src::PerSub { scripts, .. } => {
        if let Some(last) = scripts.last_mut() {
          bump(last, floor);
        }
      }
      Src::Error(c) | Src::FromResult(Err(c)) | Src::Something(Err(c)) => {
        if *c < floor {
          *c = floor;
        }
      }
      _ => {}
    },
    _ => {}
  }
  for c in n.children_mut() {
    sanitize(c, floor);
  }
}

// ---------------------------------------------------------------------------------------
// cases

#[derive(Clone, Debug)]
pub struct CaseCfg {
  pub gen: GenCfg,
  pub hot_kinds: Vec<HotKind>,
  /// number of recorders (subscribers of the root)
  pub max_rec: usize,
  pub unsub: bool,
  pub reactions: bool,
  pub advance: bool,
  /// with probability 1/4 the caller drops its Observable handle somewhere after the first
  /// subscribe, while subscriptions are still alive
  pub drop_observable: bool,
  pub hot_script: usize,
}

impl Default for CaseCfg {
  fn default() -> Self {
    CaseCfg {
      gen: GenCfg::default(),
      hot_kinds: vec![HotKind::Harness],
      max_rec: 1,
      unsub: false,
      reactions: false,
      advance: false,
      drop_observable: false,
      hot_script: 5,
    }
  }
}

/// monotone index mapping (shrinks toward the front)
pub fn idx(pos: u16, len: usize) -> usize {
  ((pos as usize) * (len + 1)) >> 16
}

fn interleave(scripts: &[Vec<Ev>], picks: &[u8]) -> Vec<Action> {
  let mut cur: Vec<usize> = vec![0; scripts.len()];
  let mut out = Vec::new();
  let mut pi = 0;
  loop {
    let live: Vec<usize> = (0..scripts.len()).filter(|i| cur[*i] < scripts[*i].len()).collect();
    if live.is_empty() {
      break;
    }
    let p = picks.get(pi).copied().unwrap_or(0) as usize;
    pi += 1;
    let i = live[(p * live.len()) >> 8];
    out.push(Action::Emit(i, scripts[i][cur[i]].clone()));
    cur[i] += 1;
  }
  out
}

pub fn case(cfg: &CaseCfg) -> BoxedStrategy<Case> {
  let cfg = cfg.clone();
  let nhot = cfg.gen.nhot;
  let hot_scripts = prop::collection::vec(
    if cfg.gen.ill_formed { script_any(cfg.hot_script) } else { script_wf(cfg.hot_script, cfg.gen.err_weight) },
    nhot..=nhot,
  );
  let kinds = prop::collection::vec(prop::sample::select(cfg.hot_kinds.clone()), nhot..=nhot);
  let picks = prop::collection::vec(any::<u8>(), 0..=(nhot * cfg.hot_script + 1));
  let nrec = 1..=cfg.max_rec.max(1);
  // extra subscribers join at generated positions; unsub events likewise
  let extras = prop::collection::vec((any::<u16>(), 0u8..=3, any::<u16>()), 0..=4);
  let reacts = prop::collection::vec(
    (prop_oneof![4 => 0usize..=3, 1 => Just(AT_TERMINAL)], 0u8..=2, 0usize..8, small(), 0u8..=5),
    0..=(if cfg.reactions { 3 } else { 0 }),
  );
  let advances = prop::collection::vec((any::<u16>(), prop::sample::select(vec![3u64, 7, 12, 30])), 0..=(if cfg.advance { 4 } else { 0 }));
  let c2 = cfg.clone();
  (node(&cfg.gen), hot_scripts, kinds, picks, nrec, extras, reacts, advances)
    .prop_map(move |(root, hs, kinds, picks, nrec, extras, reacts, advances)| {
      let cfg = &c2;
      let mut actions = vec![Action::Subscribe(0)];
      actions.extend(interleave(&hs, &picks));
      // extra subscribers
      for k in 1..nrec {
        if let Some((pos, _, _)) = extras.get(k - 1) {
          let at = 1 + idx(*pos, actions.len() - 1);
          actions.insert(at.min(actions.len()), Action::Subscribe(k));
        } else {
          actions.push(Action::Subscribe(k));
        }
      }
      if cfg.unsub {
        for (j, (_, kind, pos)) in extras.iter().enumerate() {
          let k = j % nrec;
          let at = 1 + idx(*pos, actions.len() - 1);
          let at = at.min(actions.len());
          match kind {
            0 => {}
            1 => actions.insert(at, Action::Unsub(k)),
            2 => {
              actions.insert(at, Action::Unsub(k));
              actions.insert(at, Action::Unsub(k));
            }
            _ if j % 2 == 0 => actions.insert(at, Action::DropUsing(k)),
            _ => actions.insert(at, Action::DropUsingUnwinding(k)),
          }
        }
      }
      for (pos, ms) in &advances {
        let at = 1 + idx(*pos, actions.len() - 1);
        actions.insert(at.min(actions.len()), Action::Advance(*ms));
      }
      if cfg.drop_observable {
        if let Some((pos, kind, _)) = extras.first() {
          if kind % 4 == 0 {
            let at = 1 + idx(*pos, actions.len() - 1);
            actions.insert(at.min(actions.len()), Action::DropObservable);
          }
        }
      }
      let mut recorders: Vec<Vec<Reaction>> = vec![Vec::new(); nrec.max(1)];
      let mut nrec_total = nrec;
      for (at, kind, target, v, evk) in reacts {
        let k = target % nrec;
        let what = match kind {
          0 => React::UnsubSelf,
          1 if nhot > 0 => {
            let ev = match evk {
              0 => Ev::C,
              1 => Ev::E(3),
              _ => Ev::N(v),
            };
            React::Emit(target % nhot, ev)
          }
          _ => {
            // a fresh recorder subscribed from inside the callback
            recorders.push(Vec::new());
            nrec_total += 1;
            React::Subscribe(nrec_total - 1)
          }
        };
        recorders[k].push(Reaction { at, what });
      }
      // generator soundness: a Behavior/ReplaySubject replays a stored error to every new
      // subscriber, so below retry_when(code < k) it must not store an accepted code
      let mut floor = 0u32;
      root.walk(&mut |n| {
        if let Node::Un(Op::RetryWhen(RPred::CodeLt(k)), _) = n {
          floor = floor.max(*k);
        }
      });
      if floor > 0 {
        let has_replay = root.has_op(&|n| matches!(n, Node::Un(Op::ReplayConn, _)));
        let sticky =
          |i: usize| has_replay || matches!(kinds.get(i), Some(HotKind::Behavior(_)) | Some(HotKind::Replay));
        for a in actions.iter_mut() {
          if let Action::Emit(i, Ev::E(c)) = a {
            if sticky(*i) && *c < floor {
              *c = floor;
            }
          }
        }
        for r in recorders.iter_mut().flatten() {
          if let React::Emit(i, Ev::E(c)) = &mut r.what {
            if sticky(*i) && *c < floor {
              *c = floor;
            }
          }
        }
      }
      Case { root, hots: kinds, hot_illformed: cfg.gen.ill_formed, conn: None, conn_take: None, conn_take_only: None, recorders, actions }
    })
    .boxed()
}

// ---------------------------------------------------------------------------------------
// schedules

pub fn schedule() -> BoxedStrategy<Schedule> {
  let sparse = (prop::collection::vec((0u32..60, 0u8..4), 0..=3), 0u64..4, any::<bool>()).prop_map(
    |(mut ov, hs, lifo)| {
      ov.sort();
      ov.dedup_by_key(|x| x.0);
      Schedule { overrides: ov, walk: None, hash_seed: hs, notify_lifo: lifo, spurious: false, pct: None }
    },
  );
  let dense = (any::<u64>(), prop::sample::select(vec![10u8, 25, 50]), 0u64..4, any::<bool>(), prop::bool::weighted(0.25)).prop_map(
    |(seed, pct, hs, lifo, spurious)| Schedule { overrides: vec![], walk: Some((seed | 1, pct)), hash_seed: hs, notify_lifo: lifo, spurious, pct: None },
  );
  // PCT: random thread priorities with d-1 priority change points among ~k choice points
  let pct = (any::<u64>(), 1u8..=3, prop::sample::select(vec![20u16, 60, 150]), 0u64..4, any::<bool>()).prop_map(
    |(seed, d, k, hs, lifo)| Schedule {
      overrides: vec![],
      walk: None,
      hash_seed: hs,
      notify_lifo: lifo,
      spurious: false,
      pct: Some((seed | 1, d, k)),
    },
  );
  prop_oneof![2 => sparse, 3 => dense, 2 => pct].boxed()
}

pub fn hash_only_schedule() -> BoxedStrategy<Schedule> {
  (0u64..4).prop_map(|hs| Schedule { hash_seed: hs, ..Schedule::default() }).boxed()
}

// ---------------------------------------------------------------------------------------
// single-source chains (C02)

pub fn chain(cfg: &GenCfg, min_ops: usize, max_ops: usize) -> BoxedStrategy<Node> {
  let ops = prop::collection::vec(unary_ops(cfg), min_ops..=max_ops);
  (leaf(cfg), ops)
    .prop_map(|(src, ops)| {
      let mut n = src;
      for op in ops {
        n = Node::Un(op, Box::new(n));
      }
      sanitize(&mut n, 0);
      n.renumber();
      n
    })
    .boxed()
}

/// counts that sit on the boundaries of a script of length `len`
pub fn boundary_param(op: &Op, len: usize) -> bool {
  let b = |n: usize| n == 0 || n == 1 || n.saturating_add(1) == len || n == len || n == len + 1;
  match op {
    Op::Take(n) | Op::TakeLast(n) | Op::Skip(n) | Op::SkipLast(n) | Op::ElementAt(n) | Op::Buffer(n) | Op::Window(n) | Op::WindowCounts(n) | Op::WindowFirsts(n) => b(*n),
    _ => false,
  }
}

// ---------------------------------------------------------------------------------------
// entry points for decoders outside proptest (fuzz target): the same soundness passes

pub fn sanitize_tree(n: &mut Node) {
  sanitize(n, 0);
  n.renumber();
}

/// case-level pass: errors stored by Behavior/ReplaySubject (or replay()) below retry_when
pub fn sanitize_case(mut c: Case) -> Case {
  let mut floor = 0u32;
  c.root.walk(&mut |n| {
    if let Node::Un(Op::RetryWhen(RPred::CodeLt(k)), _) = n {
      floor = floor.max(*k);
    }
  });
  if floor > 0 {
    let has_replay = c.root.has_op(&|n| matches!(n, Node::Un(Op::ReplayConn, _)));
    let kinds = c.hots.clone();
    let sticky = |i: usize| has_replay || matches!(kinds.get(i), Some(HotKind::Behavior(_)) | Some(HotKind::Replay));
    for a in c.actions.iter_mut() {
      if let Action::Emit(i, Ev::E(code)) = a {
        if sticky(*i) && *code < floor {
          *code = floor;
        }
      }
    }
  }
  c
}
