//! "mini-Rx": an independent, single-threaded reference interpreter of the pipeline AST.
//! Plain push-based Rx with safe observers and dispose-on-terminal; shares no code with
//! the crate under test. Conventions: DESIGN.md section 2.5 / appendix B.

use crate::ast::*;
use crate::real::Rk;
use crate::val::*;
use std::cell::{Cell, RefCell};
use std::collections::{HashMap, VecDeque};
use std::rc::Rc;

#[derive(Clone, Copy, Debug, PartialEq, Eq)]
pub enum Cause {
  Unsub,
  /// the downstream received a terminal (mirrored or produced by an operator)
  Terminal,
  Take,
  ElementAt,
  TakeWhile,
  TakeUntil,
  Contains,
  All,
  SequenceEqual,
  AmbLoser,
  RetryFailed,
  SiblingError,
  ResumeFailed,
  /// disposals ReactiveX implementations usually make but C06 does not list
  Unlisted,
}

impl Cause {
  /// does C06's statement name this cause?
  pub fn listed(&self) -> bool {
    !matches!(self, Cause::Unlisted)
  }
}

/// unspecified points; a trace is accepted if it matches under at least one vector
#[derive(Clone, Copy, Debug, PartialEq, Eq)]
pub struct Conv {
  /// retry(n): n subscriptions in total (the crate's reading) or n+1 ("n retries")
  pub retry_plus_one: bool,
  /// zip completes when a completed input's queue is empty (RxJS/RxJava) instead of
  /// when all inputs completed
  pub zip_early_complete: bool,
}

impl Conv {
  pub fn all() -> Vec<Conv> {
    let mut v = Vec::new();
    for a in [false, true] {
      for b in [false, true] {
        v.push(Conv { retry_plus_one: a, zip_early_complete: b });
      }
    }
    v
  }
}

#[derive(Debug, Clone, PartialEq, Eq)]
pub enum ModelErr {
  Unsupported(String),
  Unbounded,
}

// ---------------------------------------------------------------------------------------
// observers / disposables

struct ObsInner {
  alive: Cell<bool>,
  cause: Cell<Option<Cause>>,
  next: Box<dyn Fn(&P)>,
  error: Box<dyn Fn(u32)>,
  complete: Box<dyn Fn()>,
}

#[derive(Clone)]
pub struct Obs(Rc<ObsInner>);

thread_local! {
  /// number of notifications the reference passed through observers in the current run
  static EMITS: Cell<i64> = const { Cell::new(0) };
}

impl Obs {
  fn new(next: impl Fn(&P) + 'static, error: impl Fn(u32) + 'static, complete: impl Fn() + 'static) -> Obs {
    Obs(Rc::new(ObsInner {
      alive: Cell::new(true),
      cause: Cell::new(None),
      next: Box::new(next),
      error: Box::new(error),
      complete: Box::new(complete),
    }))
  }
  pub fn alive(&self) -> bool {
    self.0.alive.get()
  }
  fn next(&self, p: &P) {
    EMITS.with(|e| e.set(e.get() + 1));
    if self.alive() {
      (self.0.next)(p)
    }
  }
  fn error(&self, c: u32) {
    if self.alive() {
      self.kill(Cause::Terminal);
      (self.0.error)(c)
    }
  }
  fn complete(&self) {
    if self.alive() {
      self.kill(Cause::Terminal);
      (self.0.complete)()
    }
  }
  fn kill(&self, c: Cause) {
    if self.alive() {
      self.0.alive.set(false);
      self.0.cause.set(Some(c));
    }
  }
}

/// composite, idempotent disposable; things added after disposal are disposed at once
#[derive(Clone)]
pub struct Disp(Rc<DispInner>);

struct DispInner {
  done: Cell<Option<Cause>>,
  items: RefCell<Vec<Box<dyn Fn(Cause)>>>,
}

impl Disp {
  fn new() -> Disp {
    Disp(Rc::new(DispInner { done: Cell::new(None), items: RefCell::new(Vec::new()) }))
  }
  fn add(&self, f: impl Fn(Cause) + 'static) {
    if let Some(c) = self.0.done.get() {
      f(c);
    } else {
      self.0.items.borrow_mut().push(Box::new(f));
    }
  }
  fn add_obs(&self, o: &Obs) {
    let o = o.clone();
    self.add(move |c| o.kill(c));
  }
  fn add_disp(&self, d: &Disp) {
    let d = d.clone();
    self.add(move |c| d.dispose(c));
  }
  pub fn dispose(&self, c: Cause) {
    if self.0.done.get().is_some() {
      return;
    }
    self.0.done.set(Some(c));
    let items: Vec<Box<dyn Fn(Cause)>> = std::mem::take(&mut *self.0.items.borrow_mut());
    for f in items {
      f(c);
    }
  }
  pub fn is_done(&self) -> bool {
    self.0.done.get().is_some()
  }
}

// ---------------------------------------------------------------------------------------
// environment

pub struct MProbe {
  pub sid: usize,
  pub sub_no: usize,
  pub obs: Obs,
}

struct MHot {
  kind: HotKind,
  subs: RefCell<Vec<Obs>>,
  dead: Cell<bool>,
  // crate-subject kinds
  latest: RefCell<Option<P>>,
  history: RefCell<Vec<P>>,
  stored: RefCell<Option<Rk>>,
}

pub struct MEnv {
  conv: Conv,
  hots: Vec<MHot>,
  illformed: bool,
  sub_counts: RefCell<HashMap<usize, usize>>,
  pub factory_calls: RefCell<HashMap<usize, usize>>,
  pub tap_log: RefCell<Vec<Rk>>,
  pub probes: RefCell<Vec<MProbe>>,
  fuel: Cell<i64>,
  err: RefCell<Option<ModelErr>>,
  /// shared connections of `x.ref_count()` / `x.replay()` nodes inside a pipeline, one per
  /// node (the pipeline value is built once; every subscription of the node shares it)
  conn_nodes: RefCell<HashMap<String, Rc<MConnNode>>>,
}

/// reference state of one ref_count() / replay() node inside a pipeline
struct MConnNode {
  replay: bool,
  subs: RefCell<Vec<Obs>>,
  history: RefCell<Vec<P>>,
  stored: RefCell<Option<Rk>>,
  connection: RefCell<Option<Disp>>,
  /// the source is being subscribed right now: a disconnect requested meanwhile takes effect
  /// when that call returns (the crate has no handle to the connection before)
  connecting: Cell<bool>,
}

impl MConnNode {
  fn live(&self) -> usize {
    self.subs.borrow().iter().filter(|o| o.alive()).count()
  }
  /// after a subscriber left: the connection ends with the last one
  fn recount(&self) {
    self.subs.borrow_mut().retain(|o| o.alive());
    if self.live() == 0 && !self.connecting.get() {
      let c = self.connection.borrow_mut().take();
      if let Some(c) = c {
        c.dispose(Cause::Unsub);
      }
    }
  }
  fn push(&self, ev: Rk) {
    match ev {
      Rk::N(p) => {
        if self.replay {
          self.history.borrow_mut().push(p.clone());
        }
        let snap: Vec<Obs> = self.subs.borrow().iter().filter(|o| o.alive()).cloned().collect();
        for o in snap {
          o.next(&p);
        }
      }
      term => {
        if self.replay {
          if self.stored.borrow().is_none() {
            *self.stored.borrow_mut() = Some(term.clone());
          }
        } else {
          // ref_count: the connection is over, the next first subscriber connects again
          *self.connection.borrow_mut() = None;
        }
        let snap: Vec<Obs> = std::mem::take(&mut *self.subs.borrow_mut());
        for o in snap {
          match &term {
            Rk::E(c) => o.error(*c),
            _ => o.complete(),
          }
        }
      }
    }
  }
}

fn sub_conn_node(env: &Rc<MEnv>, replay: bool, inner: &Node, down: Obs, d: Disp) {
  let key = format!("{}:{:?}", replay, inner);
  let node = env
    .conn_nodes
    .borrow_mut()
    .entry(key)
    .or_insert_with(|| {
      Rc::new(MConnNode {
        replay,
        subs: RefCell::new(Vec::new()),
        history: RefCell::new(Vec::new()),
        stored: RefCell::new(None),
        connection: RefCell::new(None),
        connecting: Cell::new(false),
      })
    })
    .clone();
  if replay {
    let hist: Vec<P> = node.history.borrow().clone();
    let stored = node.stored.borrow().clone();
    for p in hist {
      down.next(&p);
    }
    match stored {
      Some(Rk::E(c)) => {
        down.error(c);
        return;
      }
      Some(_) => {
        down.complete();
        return;
      }
      None => {}
    }
    if !down.alive() {
      // ended inside the hand-over (take): never registered
      return;
    }
  }
  node.subs.borrow_mut().push(down.clone());
  d.add_obs(&down);
  {
    let n2 = node.clone();
    d.add(move |_c| n2.recount());
  }
  // a subscriber that ends by a terminal of its own making (take downstream) is noticed by
  // the next recount; the first subscriber connects
  if node.connection.borrow().is_none() && node.live() >= 1 {
    let cd = Disp::new();
    *node.connection.borrow_mut() = Some(cd.clone());
    let (n1, n2, n3) = (node.clone(), node.clone(), node.clone());
    let o = Obs::new(move |p| n1.push(Rk::N(p.clone())), move |c| n2.push(Rk::E(c)), move || n3.push(Rk::C));
    cd.add_obs(&o);
    node.connecting.set(true);
    subscribe(env, inner, o, cd.clone());
    node.connecting.set(false);
    // everybody left while the source was being subscribed: the connection is dropped
    if node.live() == 0 {
      let c = node.connection.borrow_mut().take();
      if let Some(c) = c {
        c.dispose(Cause::Unsub);
      }
    }
  }
}

impl MEnv {
  fn burn(&self) -> bool {
    let f = self.fuel.get() - 1;
    self.fuel.set(f);
    if f < 0 {
      self.fail(ModelErr::Unbounded);
      false
    } else {
      true
    }
  }
  fn fail(&self, e: ModelErr) {
    let mut g = self.err.borrow_mut();
    if g.is_none() {
      *g = Some(e);
    }
  }
  fn failed(&self) -> bool {
    self.err.borrow().is_some()
  }
  fn next_sub(&self, sid: usize) -> usize {
    let mut m = self.sub_counts.borrow_mut();
    let e = m.entry(sid).or_insert(0);
    let r = *e;
    *e += 1;
    r
  }
  fn probe(&self, sid: usize, o: &Obs) -> usize {
    let k = self.next_sub(sid);
    self.probes.borrow_mut().push(MProbe { sid, sub_no: k, obs: o.clone() });
    k
  }
  fn deliver(o: &Obs, ev: &Ev) {
    match ev {
      Ev::N(i) => o.next(&P::I(*i)),
      Ev::E(c) => o.error(*c),
      Ev::C => o.complete(),
    }
  }

  pub fn emit(&self, i: usize, ev: &Ev) {
    if self.failed() || !self.burn() {
      return;
    }
    let h = &self.hots[i];
    match h.kind {
      HotKind::Harness => {
        let snap: Vec<Obs> = h.subs.borrow().clone();
        for o in snap {
          MEnv::deliver(&o, ev);
        }
        if ev.is_terminal() && !self.illformed {
          h.dead.set(true);
          h.subs.borrow_mut().clear();
        }
      }
      _ => {
        // the crate's subjects: state machine of C10 (appendix B)
        match ev {
          Ev::N(v) => {
            let p = P::I(*v);
            match h.kind {
              HotKind::Behavior(_) => *h.latest.borrow_mut() = Some(p.clone()),
              HotKind::Replay => h.history.borrow_mut().push(p.clone()),
              _ => {}
            }
            let snap: Vec<Obs> = h.subs.borrow().iter().filter(|o| o.alive()).cloned().collect();
            for o in snap {
              o.next(&p);
            }
          }
          Ev::E(c) => {
            if h.stored.borrow().is_none() || matches!(h.kind, HotKind::Subject | HotKind::Async) {
              *h.stored.borrow_mut() = Some(Rk::E(*c));
            }
            let snap: Vec<Obs> = std::mem::take(&mut *h.subs.borrow_mut());
            for o in snap {
              o.error(*c);
            }
          }
          Ev::C => {
            if h.stored.borrow().is_none() || matches!(h.kind, HotKind::Subject | HotKind::Async) {
              *h.stored.borrow_mut() = Some(Rk::C);
            }
            if let HotKind::Behavior(_) = h.kind {
              *h.latest.borrow_mut() = None;
            }
            let snap: Vec<Obs> = std::mem::take(&mut *h.subs.borrow_mut());
            for o in snap {
              o.complete();
            }
          }
        }
      }
    }
  }

  fn sub_hot(self: &Rc<Self>, sid: usize, i: usize, down: Obs, d: Disp) {
    let h = &self.hots[i];
    match h.kind.clone() {
      HotKind::Harness => {
        let o = forward(&down);
        d.add_obs(&o);
        self.probe(sid, &o);
        if !h.dead.get() {
          h.subs.borrow_mut().push(o);
        }
      }
      HotKind::Subject => {
        self.next_sub(sid);
        let o = forward(&down);
        d.add_obs(&o);
        h.subs.borrow_mut().push(o);
      }
      HotKind::Async => {
        // Subject followed by take_last(1)
        self.next_sub(sid);
        let last: Rc<RefCell<Option<P>>> = Rc::new(RefCell::new(None));
        let (l1, l2) = (last.clone(), last);
        let (d1, d2) = (down.clone(), down.clone());
        let o = Obs::new(
          move |p| *l1.borrow_mut() = Some(p.clone()),
          move |c| d1.error(c),
          move || {
            if let Some(p) = l2.borrow().clone() {
              d2.next(&p);
            }
            d2.complete()
          },
        );
        d.add_obs(&o);
        h.subs.borrow_mut().push(o);
      }
      HotKind::Behavior(_) => {
        self.next_sub(sid);
        let stored = h.stored.borrow().clone();
        if let Some(Rk::E(c)) = stored {
          down.error(c);
          return;
        }
        let latest = h.latest.borrow().clone();
        match latest {
          Some(p) => down.next(&p),
          None => {
            down.complete();
            return;
          }
        }
        if down.alive() {
          let o = forward(&down);
          d.add_obs(&o);
          h.subs.borrow_mut().push(o);
        }
      }
      HotKind::Replay => {
        self.next_sub(sid);
        let o = forward(&down);
        d.add_obs(&o);
        // live first, then the history (ready_set_go order); sequentially equivalent
        h.subs.borrow_mut().push(o.clone());
        let hist: Vec<P> = h.history.borrow().clone();
        for p in hist {
          o.next(&p);
        }
        match h.stored.borrow().clone() {
          Some(Rk::E(c)) => o.error(c),
          Some(Rk::C) => o.complete(),
          _ => {}
        }
      }
    }
  }
}

/// safe pass-through observer in front of `down`
fn forward(down: &Obs) -> Obs {
  let (d1, d2, d3) = (down.clone(), down.clone(), down.clone());
  Obs::new(move |p| d1.next(p), move |c| d2.error(c), move || d3.complete())
}

// ---------------------------------------------------------------------------------------
// subscribe

pub fn subscribe(env: &Rc<MEnv>, n: &Node, down: Obs, d: Disp) {
  if env.failed() || !env.burn() {
    return;
  }
  match n {
    Node::Src(sid, s) => sub_src(env, *sid, s, down, d),
    Node::Un(op, inner) => sub_un(env, op, inner, down, d),
    Node::Nary(c, v) => sub_nary(env, c, v, down, d),
    Node::Gate(g, a, b) => sub_gate(env, g, a, b, down, d),
    Node::FlatMap(s, t) => {
      let active = Rc::new(Cell::new(1usize));
      let (env2, d2, t2, dn, act) = (env.clone(), d.clone(), t.clone(), down.clone(), active.clone());
      let (de, dd) = (down.clone(), d.clone());
      let (dc, dc2, actc) = (down.clone(), d.clone(), active.clone());
      let outer = Obs::new(
        move |p| {
          let i = p.as_i64().rem_euclid(t2.len() as i64) as usize;
          act.set(act.get() + 1);
          let (dn1, dn2, dn3) = (dn.clone(), dn.clone(), dn.clone());
          let (d3, d4, act2) = (d2.clone(), d2.clone(), act.clone());
          let io = Obs::new(
            move |p| dn1.next(p),
            move |c| {
              dn2.error(c);
              d3.dispose(Cause::SiblingError)
            },
            move || {
              act2.set(act2.get() - 1);
              if act2.get() == 0 {
                dn3.complete();
                d4.dispose(Cause::Terminal)
              }
            },
          );
          d2.add_obs(&io);
          let id = Disp::new();
          d2.add_disp(&id);
          subscribe(&env2, &t2[i], io, id.clone());
        },
        move |c| {
          de.error(c);
          dd.dispose(Cause::SiblingError)
        },
        move || {
          actc.set(actc.get() - 1);
          if actc.get() == 0 {
            dc.complete();
            dc2.dispose(Cause::Terminal)
          }
        },
      );
      d.add_obs(&outer);
      let od = Disp::new();
      d.add_disp(&od);
      subscribe(env, s, outer, od.clone());
    }
    Node::Resume(s, t) => {
      let (dn, de, dc) = (down.clone(), down.clone(), down.clone());
      let (env2, t2, d2) = (env.clone(), t.clone(), d.clone());
      let first: Rc<RefCell<Option<Disp>>> = Rc::new(RefCell::new(None));
      let f2 = first.clone();
      let o = Obs::new(
        move |p| dn.next(p),
        move |c| {
          if let Some(fd) = f2.borrow().as_ref() {
            fd.dispose(Cause::ResumeFailed);
          }
          let i = (c as usize) % t2.len();
          let o2 = forward(&de);
          d2.add_obs(&o2);
          let nd = Disp::new();
          d2.add_disp(&nd);
          subscribe(&env2, &t2[i], o2, nd.clone());
        },
        move || dc.complete(),
      );
      d.add_obs(&o);
      let fd = Disp::new();
      *first.borrow_mut() = Some(fd.clone());
      d.add_disp(&fd);
      subscribe(env, s, o, fd);
    }
    Node::Defer(did, inner) => {
      *env.factory_calls.borrow_mut().entry(*did).or_insert(0) += 1;
      subscribe(env, inner, down, d)
    }
    Node::ReadySetGo(i, script, inner) => {
      subscribe(env, inner, down, d);
      for ev in script {
        env.emit(*i, ev);
      }
    }
  }
}

fn sub_src(env: &Rc<MEnv>, sid: usize, s: &Src, down: Obs, d: Disp) {
  // a subscription made with an observer that has already ended is invisible
  let play = |script: &[Ev], polite: bool, o: &Obs| {
    for ev in script {
      if !env.burn() {
        return;
      }
      if polite && !o.alive() {
        break;
      }
      MEnv::deliver(o, ev);
    }
  };
  match s {
    Src::Cold { script, polite } => {
      if !down.alive() {
        return;
      }
      let o = forward(&down);
      d.add_obs(&o);
      env.probe(sid, &o);
      play(script, *polite, &o);
    }
    Src::PerSub { scripts, polite } => {
      if !down.alive() {
        return;
      }
      let o = forward(&down);
      d.add_obs(&o);
      let k = env.probe(sid, &o);
      play(&scripts[k.min(scripts.len() - 1)], *polite, &o);
    }
    Src::Hot(i) => {
      if !down.alive() {
        return;
      }
      return env.sub_hot(sid, *i, down, d);
    }
    Src::Just(k) | Src::Start(k) | Src::FromResult(Ok(k)) | Src::Something(Ok(k)) => {
      if let Src::Start(_) = s {
        *env.factory_calls.borrow_mut().entry(sid).or_insert(0) += 1;
      }
      down.next(&P::I(*k));
      down.complete();
    }
    Src::FromIter(v) => {
      for i in v {
        if !down.alive() || !env.burn() {
          break;
        }
        down.next(&P::I(*i));
      }
      down.complete();
    }
    Src::Range(a, n) => {
      for i in *a..(*a + *n) {
        if !down.alive() || !env.burn() {
          break;
        }
        down.next(&P::I(i));
      }
      down.complete();
    }
    Src::Empty => down.complete(),
    Src::Never => {}
    Src::Error(c) | Src::FromResult(Err(c)) | Src::Something(Err(c)) => down.error(*c),
    Src::Repeat(k) => {
      while down.alive() {
        if !env.burn() {
          break;
        }
        down.next(&P::I(*k));
      }
    }
    Src::Endless(a) => {
      let mut i = *a;
      while down.alive() {
        if !env.burn() {
          break;
        }
        down.next(&P::I(i));
        i = i.wrapping_add(1);
      }
    }
    Src::Interval(_) | Src::Timer(_) | Src::IntervalDefault(_) | Src::TimerDefault(_) | Src::IntervalUs(_) | Src::TimerUs(_) => env.fail(ModelErr::Unsupported("timed source".into())),
  }
}

/// helper for one-upstream operators: builds the upstream observer from three closures,
/// subscribes, returns the disposable. `fin(cause)` disposes the upstream early.
fn un<FN, FE, FC>(env: &Rc<MEnv>, inner: &Node, d: Disp, mk: impl FnOnce(Disp) -> (FN, FE, FC))
where
  FN: Fn(&P) + 'static,
  FE: Fn(u32) + 'static,
  FC: Fn() + 'static,
{
  let (n, e, c) = mk(d.clone());
  let o = Obs::new(n, e, c);
  d.add_obs(&o);
  let ud = Disp::new();
  d.add_disp(&ud);
  subscribe(env, inner, o, ud.clone());
}

fn sub_un(env: &Rc<MEnv>, op: &Op, inner: &Node, down: Obs, d: Disp) {
  let (dn, de, dc) = (down.clone(), down.clone(), down.clone());
  match op.clone() {
    Op::Map(f) => un(env, inner, d, |_| (move |p: &P| dn.next(&f.ap(p)), move |c| de.error(c), move || dc.complete())),
    Op::Filter(f) => un(env, inner, d, |_| {
      (
        move |p: &P| {
          if f.ap(p) {
            dn.next(p)
          }
        },
        move |c| de.error(c),
        move || dc.complete(),
      )
    }),
    Op::Take(n) | Op::ElementAt(n) => {
      let elem = matches!(op, Op::ElementAt(_));
      let cnt = Rc::new(Cell::new(0usize));
      un(env, inner, d, |d| {
        (
          move |p: &P| {
            let k = cnt.get();
            cnt.set(k + 1);
            if elem {
              if k + 1 == n {
                dn.next(p);
                dn.complete();
                d.dispose(Cause::ElementAt);
              }
            } else {
              if k < n {
                dn.next(p);
              }
              if k + 1 >= n {
                dn.complete();
                d.dispose(Cause::Take);
              }
            }
          },
          move |c| de.error(c),
          move || dc.complete(),
        )
      })
    }
    Op::First => sub_un(env, &Op::Take(1), inner, down, d),
    Op::Last => sub_un(env, &Op::TakeLast(1), inner, down, d),
    Op::TakeLast(n) => {
      let buf: Rc<RefCell<VecDeque<P>>> = Rc::new(RefCell::new(VecDeque::new()));
      let b2 = buf.clone();
      un(env, inner, d, |_| {
        (
          move |p: &P| {
            let mut b = buf.borrow_mut();
            b.push_back(p.clone());
            if b.len() > n {
              b.pop_front();
            }
          },
          move |c| de.error(c),
          move || {
            let items: Vec<P> = b2.borrow().iter().cloned().collect();
            for p in items {
              if !dc.alive() {
                break;
              }
              dc.next(&p);
            }
            dc.complete()
          },
        )
      })
    }
    Op::TakeWhile(f) => un(env, inner, d, |d| {
      (
        move |p: &P| {
          if f.ap(p) {
            dn.next(p)
          } else {
            dn.complete();
            d.dispose(Cause::TakeWhile)
          }
        },
        move |c| de.error(c),
        move || dc.complete(),
      )
    }),
    Op::Skip(n) => {
      let cnt = Rc::new(Cell::new(0usize));
      un(env, inner, d, |_| {
        (
          move |p: &P| {
            let k = cnt.get();
            cnt.set(k + 1);
            if k >= n {
              dn.next(p)
            }
          },
          move |c| de.error(c),
          move || dc.complete(),
        )
      })
    }
    Op::SkipLast(n) => {
      let buf: Rc<RefCell<VecDeque<P>>> = Rc::new(RefCell::new(VecDeque::new()));
      un(env, inner, d, |_| {
        (
          move |p: &P| {
            let out = {
              let mut b = buf.borrow_mut();
              b.push_back(p.clone());
              if b.len() > n {
                b.pop_front()
              } else {
                None
              }
            };
            if let Some(x) = out {
              dn.next(&x)
            }
          },
          move |c| de.error(c),
          move || dc.complete(),
        )
      })
    }
    Op::SkipWhile(f) => {
      let open = Rc::new(Cell::new(false));
      un(env, inner, d, |_| {
        (
          move |p: &P| {
            if !open.get() && !f.ap(p) {
              open.set(true);
            }
            if open.get() {
              dn.next(p)
            }
          },
          move |c| de.error(c),
          move || dc.complete(),
        )
      })
    }
    Op::Distinct => {
      let last: Rc<RefCell<Option<P>>> = Rc::new(RefCell::new(None));
      un(env, inner, d, |_| {
        (
          move |p: &P| {
            let same = last.borrow().as_ref() == Some(p);
            if !same {
              *last.borrow_mut() = Some(p.clone());
              dn.next(p)
            }
          },
          move |c| de.error(c),
          move || dc.complete(),
        )
      })
    }
    Op::Scan(f) => {
      let acc: Rc<RefCell<Option<P>>> = Rc::new(RefCell::new(None));
      un(env, inner, d, |_| {
        (
          move |p: &P| {
            let nv = match acc.borrow().as_ref() {
              Some(a) => f.ap(a, p),
              None => p.clone(),
            };
            *acc.borrow_mut() = Some(nv.clone());
            dn.next(&nv)
          },
          move |c| de.error(c),
          move || dc.complete(),
        )
      })
    }
    Op::Reduce(_) | Op::Sum | Op::Min | Op::Max | Op::SumAndCount | Op::Count => {
      let acc: Rc<RefCell<Option<P>>> = Rc::new(RefCell::new(None));
      let cnt = Rc::new(Cell::new(0i64));
      let (a2, c2, op2) = (acc.clone(), cnt.clone(), op.clone());
      let op1 = op.clone();
      un(env, inner, d, |_| {
        (
          move |p: &P| {
            cnt.set(cnt.get() + 1);
            let cur = acc.borrow().clone();
            let nv = match (&op1, cur) {
              (_, None) => p.clone(),
              (Op::Reduce(f), Some(a)) => f.ap(&a, p),
              (Op::Sum, Some(a)) | (Op::SumAndCount, Some(a)) => P::I(a.as_i64().wrapping_add(p.as_i64())),
              (Op::Min, Some(a)) => {
                if *p < a {
                  p.clone()
                } else {
                  a
                }
              }
              (Op::Max, Some(a)) => {
                if *p > a {
                  p.clone()
                } else {
                  a
                }
              }
              (_, Some(a)) => a,
            };
            *acc.borrow_mut() = Some(nv);
          },
          move |c| de.error(c),
          move || {
            match &op2 {
              Op::Count => dc.next(&P::I(c2.get())),
              Op::SumAndCount => {
                if let Some(a) = a2.borrow().clone() {
                  dc.next(&P::L(vec![a, P::I(c2.get())]))
                }
              }
              _ => {
                if let Some(a) = a2.borrow().clone() {
                  dc.next(&a)
                }
              }
            }
            dc.complete()
          },
        )
      })
    }
    Op::All(f) => un(env, inner, d, |d| {
      (
        move |p: &P| {
          if !f.ap(p) {
            dn.next(&P::B(false));
            dn.complete();
            d.dispose(Cause::All)
          }
        },
        move |c| de.error(c),
        move || {
          dc.next(&P::B(true));
          dc.complete()
        },
      )
    }),
    Op::Contains(k) => {
      let de2 = down.clone();
      un(env, inner, d, |d| {
        (
          move |p: &P| {
            if *p == P::I(k) {
              dn.next(&P::B(true));
              dn.complete();
              d.dispose(Cause::Contains)
            }
          },
          // pinned by the crate's asserted test: an erroring source yields false + complete
          move |_c| {
            de2.next(&P::B(false));
            de2.complete()
          },
          move || {
            dc.next(&P::B(false));
            dc.complete()
          },
        )
      })
    }
    Op::DefaultIfEmpty(k) => {
      let seen = Rc::new(Cell::new(false));
      let s2 = seen.clone();
      un(env, inner, d, |_| {
        (
          move |p: &P| {
            seen.set(true);
            dn.next(p)
          },
          move |c| de.error(c),
          move || {
            if !s2.get() {
              dc.next(&P::I(k))
            }
            dc.complete()
          },
        )
      })
    }
    Op::IgnoreElements => un(env, inner, d, |_| (move |_p: &P| {}, move |c| de.error(c), move || dc.complete())),
    Op::StartWith(v) => {
      for i in &v {
        if !down.alive() {
          break;
        }
        down.next(&P::I(*i));
      }
      if !down.alive() {
        return;
      }
      un(env, inner, d, |_| (move |p: &P| dn.next(p), move |c| de.error(c), move || dc.complete()))
    }
    Op::Buffer(n) => {
      let buf: Rc<RefCell<Vec<P>>> = Rc::new(RefCell::new(Vec::new()));
      let b2 = buf.clone();
      un(env, inner, d, |_| {
        (
          move |p: &P| {
            let out = {
              let mut b = buf.borrow_mut();
              b.push(p.clone());
              if b.len() == n {
                Some(std::mem::take(&mut *b))
              } else {
                None
              }
            };
            if let Some(v) = out {
              dn.next(&P::L(v))
            }
          },
          move |c| de.error(c),
          move || {
            let rest = std::mem::take(&mut *b2.borrow_mut());
            if !rest.is_empty() {
              dc.next(&P::L(rest))
            }
            dc.complete()
          },
        )
      })
    }
    Op::Window(n) => {
      let w = Rc::new(Cell::new(0i64));
      let cnt = Rc::new(Cell::new(0usize));
      un(env, inner, d, |_| {
        (
          move |p: &P| {
            dn.next(&P::L(vec![P::I(w.get()), p.clone()]));
            cnt.set(cnt.get() + 1);
            if cnt.get() == n {
              cnt.set(0);
              w.set(w.get() + 1);
            }
          },
          move |c| de.error(c),
          move || dc.complete(),
        )
      })
    }
    Op::WindowCounts(n) => {
      // a window is opened by its first item and completed by its n-th (its count is
      // handed on then); the source's completion completes an open window, its error fails it
      let cnt = Rc::new(Cell::new(0usize));
      let c2 = cnt.clone();
      un(env, inner, d, |_| {
        (
          move |_p: &P| {
            cnt.set(cnt.get() + 1);
            if cnt.get() == n {
              cnt.set(0);
              dn.next(&P::I(n as i64));
            }
          },
          move |c| de.error(c),
          move || {
            if c2.get() > 0 {
              dc.next(&P::I(c2.get() as i64));
            }
            dc.complete()
          },
        )
      })
    }
    Op::GroupBy(k) => {
      let k = k.max(1);
      let groups: Rc<RefCell<Vec<i64>>> = Rc::new(RefCell::new(Vec::new()));
      un(env, inner, d, |_| {
        (
          move |p: &P| {
            let key = p.as_i64().rem_euclid(k);
            let pos = groups.borrow().iter().position(|x| *x == key);
            let g = match pos {
              Some(g) => g,
              None => {
                groups.borrow_mut().push(key);
                groups.borrow().len() - 1
              }
            };
            dn.next(&P::L(vec![P::I(g as i64), p.clone()]))
          },
          move |c| de.error(c),
          move || dc.complete(),
        )
      })
    }
    Op::GroupFirsts(k) => {
      // one group per key, whatever its subscriber does: only the first item of a key is
      // handed on, later ones meet a group nobody listens to any more
      let k = k.max(1);
      let groups: Rc<RefCell<Vec<i64>>> = Rc::new(RefCell::new(Vec::new()));
      un(env, inner, d, |_| {
        (
          move |p: &P| {
            let key = p.as_i64().rem_euclid(k);
            if !groups.borrow().contains(&key) {
              groups.borrow_mut().push(key);
              let g = groups.borrow().len() - 1;
              dn.next(&P::L(vec![P::I(g as i64), p.clone()]))
            }
          },
          move |c| de.error(c),
          move || dc.complete(),
        )
      })
    }
    Op::WindowFirsts(n) => {
      let seen = Rc::new(Cell::new(0usize));
      un(env, inner, d, |_| {
        (
          move |p: &P| {
            let i = seen.get();
            seen.set(i + 1);
            if i % n == 0 {
              dn.next(&P::L(vec![P::I((i / n) as i64), p.clone()]))
            }
          },
          move |c| de.error(c),
          move || dc.complete(),
        )
      })
    }
    Op::Materialize => {
      let de2 = down.clone();
      un(env, inner, d, |_| {
        (
          move |p: &P| dn.next(&P::MNext(Box::new(p.clone()))),
          move |c| {
            de2.next(&P::MErr(c));
            de2.complete()
          },
          move || {
            dc.next(&P::MComplete);
            dc.complete()
          },
        )
      })
    }
    Op::Dematerialize => un(env, inner, d, |d| {
      (
        move |p: &P| match p {
          P::MNext(x) => dn.next(x),
          P::MErr(c) => {
            dn.error(*c);
            d.dispose(Cause::Unlisted)
          }
          P::MComplete => {
            dn.complete();
            d.dispose(Cause::Unlisted)
          }
          other => dn.next(other),
        },
        move |c| de.error(c),
        move || dc.complete(),
      )
    }),
    Op::Tap => {
      let (e1, e2, e3) = (env.clone(), env.clone(), env.clone());
      un(env, inner, d, |_| {
        (
          move |p: &P| {
            e1.tap_log.borrow_mut().push(Rk::N(p.clone()));
            dn.next(p)
          },
          move |c| {
            e2.tap_log.borrow_mut().push(Rk::E(c));
            de.error(c)
          },
          move || {
            e3.tap_log.borrow_mut().push(Rk::C);
            dc.complete()
          },
        )
      })
    }
    Op::MapToAny | Op::ObserveOnDefault | Op::SubscribeOnDefault | Op::Timestamp => {
      un(env, inner, d, |_| (move |p: &P| dn.next(p), move |c| de.error(c), move || dc.complete()))
    }
    Op::Retry(_) | Op::RetryWhen(_) => {
      fn attempt(env: &Rc<MEnv>, op: &Op, inner: &Node, down: &Obs, d: &Disp, n: usize) {
        if env.failed() || !env.burn() {
          return;
        }
        let (dn, de, dc) = (down.clone(), down.clone(), down.clone());
        let (env2, op2, inner2, down2, d2) = (env.clone(), op.clone(), inner.clone(), down.clone(), d.clone());
        let cur: Rc<RefCell<Option<Disp>>> = Rc::new(RefCell::new(None));
        let cur2 = cur.clone();
        let o = Obs::new(
          move |p| dn.next(p),
          move |c| {
            let again = match &op2 {
              Op::Retry(max) => {
                let budget = if env2.conv.retry_plus_one { *max + 1 } else { *max };
                *max == 0 || n < budget
              }
              Op::RetryWhen(p) => p.ap(c),
              _ => false,
            };
            if again {
              if let Some(x) = cur2.borrow().as_ref() {
                x.dispose(Cause::RetryFailed);
              }
              attempt(&env2, &op2, &inner2, &down2, &d2, n + 1);
            } else {
              de.error(c)
            }
          },
          move || dc.complete(),
        );
        d.add_obs(&o);
        let ud = Disp::new();
        *cur.borrow_mut() = Some(ud.clone());
        d.add_disp(&ud);
        subscribe(env, inner, o, ud);
      }
      attempt(env, op, inner, &down, &d, 1);
    }
    Op::RefCount => sub_conn_node(env, false, inner, down, d),
    Op::ReplayConn => sub_conn_node(env, true, inner, down, d),
    other => {
      env.fail(ModelErr::Unsupported(format!("{:?}", other)));
    }
  }
}

fn sub_nary(env: &Rc<MEnv>, c: &Comb, v: &[Node], down: Obs, d: Disp) {
  let n = v.len();
  match c {
    Comb::Merge => {
      let left = Rc::new(Cell::new(n));
      for x in v {
        let (dn, de, dc) = (down.clone(), down.clone(), down.clone());
        let (d1, d2, l) = (d.clone(), d.clone(), left.clone());
        let o = Obs::new(
          move |p| dn.next(p),
          move |c| {
            de.error(c);
            d1.dispose(Cause::SiblingError)
          },
          move || {
            l.set(l.get() - 1);
            if l.get() == 0 {
              dc.complete();
              d2.dispose(Cause::Terminal)
            }
          },
        );
        d.add_obs(&o);
        let ud = Disp::new();
        d.add_disp(&ud);
        subscribe(env, x, o, ud.clone());
      }
    }
    Comb::Concat => {
      fn next_one(env: &Rc<MEnv>, v: Rc<Vec<Node>>, i: usize, down: &Obs, d: &Disp) {
        if i >= v.len() {
          down.complete();
          d.dispose(Cause::Terminal);
          return;
        }
        let (dn, de) = (down.clone(), down.clone());
        let (env2, v2, down2, d2, d3) = (env.clone(), v.clone(), down.clone(), d.clone(), d.clone());
        let o = Obs::new(
          move |p| dn.next(p),
          move |c| {
            de.error(c);
            d3.dispose(Cause::Terminal)
          },
          move || next_one(&env2, v2.clone(), i + 1, &down2, &d2),
        );
        d.add_obs(&o);
        let ud = Disp::new();
        d.add_disp(&ud);
        subscribe(env, &v[i], o, ud.clone());
      }
      next_one(env, Rc::new(v.to_vec()), 0, &down, &d);
    }
    Comb::SequenceEqual => {
      // every input is a queue of items closed by an end marker; the answer is `false` as
      // soon as a tuple of heads differs (an item against an end marker included), `true`
      // when all end markers meet
      let queues: Rc<RefCell<Vec<VecDeque<Option<P>>>>> = Rc::new(RefCell::new(vec![VecDeque::new(); n]));
      let step = {
        let (q, dn, dd) = (queues.clone(), down.clone(), d.clone());
        Rc::new(move || loop {
          let tuple: Option<Vec<Option<P>>> = {
            let mut q = q.borrow_mut();
            if q.iter().all(|x| !x.is_empty()) {
              Some(q.iter_mut().map(|x| x.pop_front().unwrap()).collect())
            } else {
              None
            }
          };
          match tuple {
            None => break,
            Some(t) => {
              if !dn.alive() {
                break;
              }
              if !t.iter().all(|x| *x == t[0]) {
                dn.next(&P::B(false));
                dn.complete();
                dd.dispose(Cause::SequenceEqual);
                break;
              }
              if t[0].is_none() {
                dn.next(&P::B(true));
                dn.complete();
                dd.dispose(Cause::Terminal);
                break;
              }
            }
          }
        })
      };
      for (i, x) in v.iter().enumerate() {
        let (q1, q2, s1, s2) = (queues.clone(), queues.clone(), step.clone(), step.clone());
        let (de, d2) = (down.clone(), d.clone());
        let o = Obs::new(
          move |p| {
            q1.borrow_mut()[i].push_back(Some(p.clone()));
            s1()
          },
          move |c| {
            de.error(c);
            d2.dispose(Cause::SiblingError)
          },
          move || {
            q2.borrow_mut()[i].push_back(None);
            s2()
          },
        );
        d.add_obs(&o);
        let ud = Disp::new();
        d.add_disp(&ud);
        subscribe(env, x, o, ud.clone());
      }
    }
    Comb::Zip => {
      let seq = false;
      let queues: Rc<RefCell<Vec<VecDeque<P>>>> = Rc::new(RefCell::new(vec![VecDeque::new(); n]));
      let done: Rc<RefCell<Vec<bool>>> = Rc::new(RefCell::new(vec![false; n]));
      let early = env.conv.zip_early_complete;
      for (i, x) in v.iter().enumerate() {
        let (dn, de, dc) = (down.clone(), down.clone(), down.clone());
        let (q1, q2, dn1, dn2) = (queues.clone(), queues.clone(), done.clone(), done.clone());
        let (d1, d2, d3) = (d.clone(), d.clone(), d.clone());
        let o = Obs::new(
          move |p| {
            q1.borrow_mut()[i].push_back(p.clone());
            loop {
              let tuple: Option<Vec<P>> = {
                let mut q = q1.borrow_mut();
                if q.iter().all(|x| !x.is_empty()) {
                  Some(q.iter_mut().map(|x| x.pop_front().unwrap()).collect())
                } else {
                  None
                }
              };
              match tuple {
                None => break,
                Some(t) => {
                  if !dn.alive() {
                    break;
                  }
                  if seq {
                    if !t.iter().all(|x| *x == t[0]) {
                      dn.next(&P::B(false));
                      dn.complete();
                      d1.dispose(Cause::SequenceEqual);
                      break;
                    }
                  } else {
                    dn.next(&P::L(t));
                  }
                }
              }
            }
            if !seq && early {
              let fin = {
                let q = q1.borrow();
                let dd = dn1.borrow();
                (0..q.len()).any(|j| dd[j] && q[j].is_empty())
              };
              if fin && dn.alive() {
                dn.complete();
                d1.dispose(Cause::Unlisted);
              }
            }
          },
          move |c| {
            de.error(c);
            d2.dispose(Cause::SiblingError)
          },
          move || {
            dn2.borrow_mut()[i] = true;
            let all = dn2.borrow().iter().all(|x| *x);
            if seq {
              if all {
                // same length <=> nothing left in any queue
                let eq = q2.borrow().iter().all(|q| q.is_empty());
                dc.next(&P::B(eq));
                dc.complete();
                d3.dispose(Cause::Terminal);
              }
            } else {
              let dry = early && q2.borrow()[i].is_empty();
              if all || dry {
                dc.complete();
                d3.dispose(if all { Cause::Terminal } else { Cause::Unlisted });
              }
            }
          },
        );
        d.add_obs(&o);
        let ud = Disp::new();
        d.add_disp(&ud);
        subscribe(env, x, o, ud.clone());
      }
    }
    Comb::CombineLatest => {
      let latest: Rc<RefCell<Vec<Option<P>>>> = Rc::new(RefCell::new(vec![None; n]));
      let left = Rc::new(Cell::new(n));
      for (i, x) in v.iter().enumerate() {
        let (dn, de, dc) = (down.clone(), down.clone(), down.clone());
        let (l1, d1, d2, lf) = (latest.clone(), d.clone(), d.clone(), left.clone());
        let o = Obs::new(
          move |p| {
            l1.borrow_mut()[i] = Some(p.clone());
            let t: Option<Vec<P>> = l1.borrow().iter().cloned().collect();
            if let Some(t) = t {
              dn.next(&P::L(t))
            }
          },
          move |c| {
            de.error(c);
            d1.dispose(Cause::SiblingError)
          },
          move || {
            lf.set(lf.get() - 1);
            if lf.get() == 0 {
              dc.complete();
              d2.dispose(Cause::Terminal)
            }
          },
        );
        d.add_obs(&o);
        let ud = Disp::new();
        d.add_disp(&ud);
        subscribe(env, x, o, ud.clone());
      }
    }
    Comb::Amb => {
      let winner: Rc<Cell<Option<usize>>> = Rc::new(Cell::new(None));
      let subs: Rc<RefCell<Vec<Option<Disp>>>> = Rc::new(RefCell::new(vec![None; n]));
      // every input is subscribed, in order; the first to signal anything wins. A loser is
      // disposed when it first signals (at the latest), as C06 words it; whether inputs that
      // cannot win any more are subscribed at all is not fixed by any property - they are,
      // as in the crate
      for (i, x) in v.iter().enumerate() {
        let decide = {
          let (w, s) = (winner.clone(), subs.clone());
          Rc::new(move || -> bool {
            match w.get() {
              Some(k) if k == i => true,
              Some(_) => {
                let me = s.borrow()[i].clone();
                if let Some(me) = me {
                  me.dispose(Cause::AmbLoser);
                }
                false
              }
              None => {
                w.set(Some(i));
                true
              }
            }
          })
        };
        let (dn, de, dc) = (down.clone(), down.clone(), down.clone());
        let (k1, k2, k3) = (decide.clone(), decide.clone(), decide);
        let (d1, d2) = (d.clone(), d.clone());
        let o = Obs::new(
          move |p| {
            if k1() {
              dn.next(p)
            }
          },
          move |c| {
            if k2() {
              de.error(c);
              d1.dispose(Cause::Terminal)
            }
          },
          move || {
            if k3() {
              dc.complete();
              d2.dispose(Cause::Terminal)
            }
          },
        );
        let id = Disp::new();
        id.add_obs(&o);
        subs.borrow_mut()[i] = Some(id.clone());
        d.add_disp(&id);
        let ud = Disp::new();
        id.add_disp(&ud);
        subscribe(env, x, o, ud.clone());
      }
    }
  }
}

fn sub_gate(env: &Rc<MEnv>, g: &Gate, a: &Node, b: &Node, down: Obs, d: Disp) {
  let (dn, de, dc) = (down.clone(), down.clone(), down.clone());
  match g {
    Gate::TakeUntil => {
      let (dt, d1) = (down.clone(), d.clone());
      let trig = Obs::new(
        move |_p| {
          dt.complete();
          d1.dispose(Cause::TakeUntil)
        },
        |_c| {},
        || {},
      );
      d.add_obs(&trig);
      let td = Disp::new();
      d.add_disp(&td);
      subscribe(env, b, trig, td.clone());
      let (d2, d3) = (d.clone(), d.clone());
      let src = Obs::new(
        move |p| dn.next(p),
        move |c| {
          de.error(c);
          d2.dispose(Cause::Terminal)
        },
        move || {
          dc.complete();
          d3.dispose(Cause::Terminal)
        },
      );
      d.add_obs(&src);
      let sd = Disp::new();
      d.add_disp(&sd);
      subscribe(env, a, src, sd.clone());
    }
    Gate::SkipUntil => {
      let open = Rc::new(Cell::new(false));
      let o2 = open.clone();
      let tdisp = Disp::new();
      let td2 = tdisp.clone();
      let trig = Obs::new(
        move |_p| {
          o2.set(true);
          td2.dispose(Cause::Unlisted)
        },
        |_c| {},
        || {},
      );
      tdisp.add_obs(&trig);
      d.add_disp(&tdisp);
      let td = Disp::new();
      tdisp.add_disp(&td);
      subscribe(env, b, trig, td.clone());
      let (d2, d3) = (d.clone(), d.clone());
      let src = Obs::new(
        move |p| {
          if open.get() {
            dn.next(p)
          }
        },
        move |c| {
          de.error(c);
          d2.dispose(Cause::Terminal)
        },
        move || {
          dc.complete();
          d3.dispose(Cause::Terminal)
        },
      );
      d.add_obs(&src);
      let sd = Disp::new();
      d.add_disp(&sd);
      subscribe(env, a, src, sd.clone());
    }
    Gate::Sample => {
      let val: Rc<RefCell<Option<P>>> = Rc::new(RefCell::new(None));
      let v2 = val.clone();
      let dt = down.clone();
      let trig = Obs::new(
        move |_p| {
          let v = v2.borrow_mut().take();
          if let Some(v) = v {
            dt.next(&v)
          }
        },
        |_c| {},
        || {},
      );
      d.add_obs(&trig);
      let td = Disp::new();
      d.add_disp(&td);
      subscribe(env, b, trig, td.clone());
      let (d2, d3) = (d.clone(), d.clone());
      let src = Obs::new(
        move |p| *val.borrow_mut() = Some(p.clone()),
        move |c| {
          de.error(c);
          d2.dispose(Cause::Terminal)
        },
        move || {
          dc.complete();
          d3.dispose(Cause::Terminal)
        },
      );
      d.add_obs(&src);
      let sd = Disp::new();
      d.add_disp(&sd);
      subscribe(env, a, src, sd.clone());
    }
    Gate::SwitchOnNext => env.fail(ModelErr::Unsupported("switch_on_next".into())),
  }
}

// ---------------------------------------------------------------------------------------
// driver

#[derive(Clone, Debug)]
pub struct MProbeOut {
  pub sid: usize,
  pub sub_no: usize,
  /// dead already before the sentinel round (None: subscribed during the sentinel round)
  pub dead_before_sentinel: Option<bool>,
  pub cause_before_sentinel: Option<Cause>,
  pub alive_end: bool,
  pub cause: Option<Cause>,
}

#[derive(Clone, Debug)]
pub struct MResult {
  pub traces: Vec<Vec<Rk>>,
  pub sub_counts: Vec<(usize, usize)>,
  pub factory_calls: Vec<(usize, usize)>,
  pub tap_log: Vec<Rk>,
  pub probes: Vec<MProbeOut>,
  /// per recorder: did it end (terminal or unsubscribe) before the sentinel round
  pub ended: Vec<bool>,
  pub reactions_fired: Vec<(usize, usize)>,
  /// fuel the reference burned (one unit per emission / subscription step): the size of the case
  pub fuel_used: i64,
  /// after every action: number of live observers registered in every hot source
  pub subj_timeline: Vec<Vec<usize>>,
}

/// reference state of publish() / ref_count() / replay() (C13, appendix B)
struct MConn {
  kind: ConnKind,
  subs: RefCell<Vec<Obs>>,
  history: RefCell<Vec<P>>,
  stored: RefCell<Option<Rk>>,
  connection: RefCell<Option<Disp>>,
  /// the source is being subscribed right now: a disconnect requested meanwhile takes effect
  /// when that call returns (as in MConnNode: the crate has no handle to the connection before)
  connecting: Cell<bool>,
}

impl MConn {
  fn count(&self) -> usize {
    self.subs.borrow().iter().filter(|o| o.alive()).count()
  }
  fn push(&self, ev: Rk) {
    match ev {
      Rk::N(p) => {
        if self.kind == ConnKind::Replay {
          self.history.borrow_mut().push(p.clone());
        }
        let snap: Vec<Obs> = self.subs.borrow().iter().filter(|o| o.alive()).cloned().collect();
        for o in snap {
          o.next(&p);
        }
      }
      Rk::E(c) => {
        if self.kind == ConnKind::Replay && self.stored.borrow().is_none() {
          *self.stored.borrow_mut() = Some(Rk::E(c));
        }
        let snap: Vec<Obs> = std::mem::take(&mut *self.subs.borrow_mut());
        for o in snap {
          o.error(c);
        }
      }
      Rk::C => {
        if self.kind == ConnKind::Replay && self.stored.borrow().is_none() {
          *self.stored.borrow_mut() = Some(Rk::C);
        }
        let snap: Vec<Obs> = std::mem::take(&mut *self.subs.borrow_mut());
        for o in snap {
          o.complete();
        }
      }
    }
  }
}

fn conn_connect(sh: &Rc<MShared>) {
  let conn = sh.conn.as_ref().unwrap().clone();
  // (publish: every connect() call is a source subscription of its own; the histories only
  // call it again once the previous connection is over - ended by the source or disconnected)
  if conn.connection.borrow().is_some() && conn.kind != ConnKind::Publish {
    return;
  }
  let d = Disp::new();
  *conn.connection.borrow_mut() = Some(d.clone());
  let (c1, c2, c3) = (conn.clone(), conn.clone(), conn.clone());
  let o = Obs::new(move |p| c1.push(Rk::N(p.clone())), move |c| c2.push(Rk::E(c)), move || c3.push(Rk::C));
  d.add_obs(&o);
  let root = sh.root.clone();
  let counted = conn.kind != ConnKind::Publish;
  if counted {
    conn.connecting.set(true);
  }
  subscribe(&sh.env, &root, o, d);
  if counted {
    conn.connecting.set(false);
    // everybody left while the source was being subscribed: the connection is dropped now
    conn.subs.borrow_mut().retain(|o| o.alive());
    if conn.count() == 0 {
      conn_disconnect(sh);
    }
  }
}

fn conn_disconnect(sh: &Rc<MShared>) {
  let conn = sh.conn.as_ref().unwrap();
  let d = conn.connection.borrow_mut().take();
  if let Some(d) = d {
    d.dispose(Cause::Unsub);
  }
}

/// after any change of the subscriber set of ref_count / replay
fn conn_recount(sh: &Rc<MShared>) {
  let conn = sh.conn.as_ref().unwrap();
  if conn.kind == ConnKind::Publish {
    return;
  }
  conn.subs.borrow_mut().retain(|o| o.alive());
  if conn.count() == 0 && !conn.connecting.get() {
    conn_disconnect(sh);
  }
}

struct MShared {
  conn_take: Option<usize>,
  conn_take_only: Option<usize>,
  conn: Option<Rc<MConn>>,
  env: Rc<MEnv>,
  root: Node,
  traces: RefCell<Vec<Vec<Rk>>>,
  subs: RefCell<Vec<Option<Disp>>>,
  started: RefCell<Vec<bool>>,
  ncount: RefCell<Vec<usize>>,
  recorders: Vec<Vec<Reaction>>,
  fired: RefCell<Vec<(usize, usize)>>,
  /// the caller has dropped the pipeline value: nothing can be subscribed any more
  root_dropped: Cell<bool>,
}

fn m_react(s1: &Rc<MShared>, k: usize, n: usize) {
  let rs = s1.recorders[k].clone();
  for (ri, r) in rs.iter().enumerate() {
    if r.at == n {
      match &r.what {
        React::UnsubSelf => {
          let d = s1.subs.borrow()[k].clone();
          if let Some(d) = d {
            s1.fired.borrow_mut().push((k, ri));
            d.dispose(Cause::Unsub);
          }
        }
        React::Emit(i, ev) => {
          s1.fired.borrow_mut().push((k, ri));
          s1.env.emit(*i, ev);
        }
        React::Subscribe(j) => {
          if !s1.started.borrow()[*j] {
            s1.fired.borrow_mut().push((k, ri));
            m_subscribe(s1, *j);
          }
        }
      }
    }
  }
}

fn m_subscribe(sh: &Rc<MShared>, k: usize) {
  if sh.started.borrow()[k] || sh.root_dropped.get() {
    return;
  }
  sh.started.borrow_mut()[k] = true;
  let (s1, s2, s3) = (sh.clone(), sh.clone(), sh.clone());
  let o = Obs::new(
    move |p| {
      s1.traces.borrow_mut()[k].push(Rk::N(p.clone()));
      let n = s1.ncount.borrow()[k];
      s1.ncount.borrow_mut()[k] = n + 1;
      m_react(&s1, k, n);
    },
    move |c| {
      s2.traces.borrow_mut()[k].push(Rk::E(c));
      m_react(&s2, k, AT_TERMINAL);
    },
    move || {
      s3.traces.borrow_mut()[k].push(Rk::C);
      m_react(&s3, k, AT_TERMINAL);
    },
  );
  let d = Disp::new();
  d.add_obs(&o);
  if let Some(conn) = sh.conn.clone() {
    // subscribe to the connectable's observable() (optionally through take(n))
    let o = match sh.conn_take.filter(|_| sh.conn_take_only.map_or(true, |only| only == k)) {
      None => o,
      Some(n) => {
        let cnt = Rc::new(Cell::new(0usize));
        let (o1, o2, o3, d2) = (o.clone(), o.clone(), o.clone(), d.clone());
        let w = Obs::new(
          move |p| {
            let k = cnt.get();
            cnt.set(k + 1);
            if k < n {
              o1.next(p);
            }
            if k + 1 >= n {
              o1.complete();
              d2.dispose(Cause::Take);
            }
          },
          move |c| o2.error(c),
          move || o3.complete(),
        );
        d.add_obs(&w);
        w
      }
    };
    {
      let sh2 = sh.clone();
      d.add(move |_| conn_recount(&sh2));
    }
    conn.subs.borrow_mut().push(o.clone());
    if conn.kind == ConnKind::Replay {
      let hist: Vec<P> = conn.history.borrow().clone();
      for p in hist {
        o.next(&p);
      }
      match conn.stored.borrow().clone() {
        Some(Rk::E(c)) => o.error(c),
        Some(Rk::C) => o.complete(),
        _ => {}
      }
    }
    // (a replay whose source has terminated hands out history + terminal and never connects
    // again - also not for a subscriber that arrives while another one is being handed the
    // history)
    let replay_over = conn.kind == ConnKind::Replay && conn.stored.borrow().is_some();
    if conn.kind != ConnKind::Publish && conn.count() == 1 && !replay_over {
      conn_connect(sh);
    }
    // observers that were ended by a terminal during the (synchronous) connect
    conn_recount(sh);
    sh.subs.borrow_mut()[k] = Some(d);
    return;
  }
  let root = sh.root.clone();
  // the handle is available to reactions only after subscribe() returned (as in Rx)
  subscribe(&sh.env, &root, o, d.clone());
  sh.subs.borrow_mut()[k] = Some(d);
}

/// break Rc cycles (subscriptions hold observers that hold the shared state); also on the
/// error paths, where whole unbounded pipelines would otherwise stay allocated
fn cleanup(sh: &Rc<MShared>, env: &Rc<MEnv>) {
  // once the error flag is set nothing runs any more: disposing cannot loop
  if env.err.borrow().is_none() {
    *env.err.borrow_mut() = Some(ModelErr::Unsupported("cleanup".into()));
  }
  let subs: Vec<Option<Disp>> = std::mem::take(&mut *sh.subs.borrow_mut());
  for d in subs.into_iter().flatten() {
    d.dispose(Cause::Unsub);
  }
  for h in &env.hots {
    h.subs.borrow_mut().clear();
  }
  if let Some(conn) = &sh.conn {
    conn.subs.borrow_mut().clear();
    let d = conn.connection.borrow_mut().take();
    if let Some(d) = d {
      d.dispose(Cause::Unsub);
    }
  }
  env.probes.borrow_mut().clear();
}

pub fn run_model(case: &Case, conv: Conv) -> Result<MResult, ModelErr> {
  run_model_opt(case, conv, true)
}

pub fn run_model_opt(case: &Case, conv: Conv, sentinel: bool) -> Result<MResult, ModelErr> {
  EMITS.with(|e| e.set(0));
  let hots = case
    .hots
    .iter()
    .map(|k| MHot {
      kind: k.clone(),
      subs: RefCell::new(Vec::new()),
      dead: Cell::new(false),
      latest: RefCell::new(match k {
        HotKind::Behavior(i) => Some(P::I(*i)),
        _ => None,
      }),
      history: RefCell::new(Vec::new()),
      stored: RefCell::new(None),
    })
    .collect();
  let env = Rc::new(MEnv {
    conv,
    hots,
    illformed: case.hot_illformed,
    sub_counts: RefCell::new(HashMap::new()),
    factory_calls: RefCell::new(HashMap::new()),
    tap_log: RefCell::new(Vec::new()),
    probes: RefCell::new(Vec::new()),
    fuel: Cell::new(40_000),
    err: RefCell::new(None),
    conn_nodes: RefCell::new(HashMap::new()),
  });
  let nrec = case.recorders.len();
  let sh = Rc::new(MShared {
    conn_take: case.conn_take,
    conn_take_only: case.conn_take_only,
    conn: case.conn.clone().map(|kind| {
      Rc::new(MConn {
        kind,
        subs: RefCell::new(Vec::new()),
        history: RefCell::new(Vec::new()),
        stored: RefCell::new(None),
        connection: RefCell::new(None),
        connecting: Cell::new(false),
      })
    }),
    env: env.clone(),
    root: case.root.clone(),
    traces: RefCell::new(vec![Vec::new(); nrec]),
    subs: RefCell::new(vec![None; nrec]),
    started: RefCell::new(vec![false; nrec]),
    ncount: RefCell::new(vec![0; nrec]),
    recorders: case.recorders.clone(),
    fired: RefCell::new(Vec::new()),
    root_dropped: Cell::new(false),
  });
  let mut unsubbed = vec![false; nrec];
  let mut subj_timeline: Vec<Vec<usize>> = Vec::new();
  for a in &case.actions {
    match a {
      Action::Subscribe(k) => m_subscribe(&sh, *k),
      Action::Emit(i, ev) => env.emit(*i, ev),
      Action::Unsub(k) | Action::DropUsing(k) | Action::DropUsingUnwinding(k) => {
        let d = sh.subs.borrow()[*k].clone();
        if let Some(d) = d {
          unsubbed[*k] = true;
          d.dispose(Cause::Unsub);
        }
      }
      Action::Advance(_) => {}
      Action::DropObservable => sh.root_dropped.set(true),
      Action::IsSubscribed(_) => {}
      Action::Connect => {
        if sh.conn.is_some() {
          conn_connect(&sh);
        }
      }
      Action::Disconnect => {
        if sh.conn.is_some() {
          conn_disconnect(&sh);
        }
      }
    }
    if sh.conn.is_some() {
      // a terminal of the source empties the subscriber set
      conn_recount(&sh);
    }
    if env.failed() {
      break;
    }
    subj_timeline.push(env.hots.iter().map(|h| h.subs.borrow().iter().filter(|o| o.alive()).count()).collect());
  }
  if let Some(e) = env.err.borrow().clone() {
    cleanup(&sh, &env);
    return Err(e);
  }
  let ended: Vec<bool> = (0..nrec)
    .map(|k| unsubbed[k] || sh.traces.borrow()[k].iter().any(|e| e.is_terminal()))
    .collect();
  // sentinel round
  let before: Vec<(bool, Option<Cause>)> =
    env.probes.borrow().iter().map(|p| (!p.obs.alive(), p.obs.0.cause.get())).collect();
  if sentinel {
    for i in 0..case.hots.len() {
      env.emit(i, &Ev::N(SENTINEL));
    }
  }
  if let Some(e) = env.err.borrow().clone() {
    cleanup(&sh, &env);
    return Err(e);
  }
  let probes = env
    .probes
    .borrow()
    .iter()
    .enumerate()
    .map(|(i, p)| MProbeOut {
      sid: p.sid,
      sub_no: p.sub_no,
      dead_before_sentinel: before.get(i).map(|b| b.0),
      cause_before_sentinel: before.get(i).and_then(|b| b.1),
      alive_end: p.obs.alive(),
      cause: p.obs.0.cause.get(),
    })
    .collect();
  let mut sc: Vec<(usize, usize)> = env.sub_counts.borrow().iter().map(|(a, b)| (*a, *b)).collect();
  sc.sort();
  let mut fc: Vec<(usize, usize)> = env.factory_calls.borrow().iter().map(|(a, b)| (*a, *b)).collect();
  fc.sort();
  cleanup(&sh, &env);
  let traces = sh.traces.borrow().clone();
  let tap_log = env.tap_log.borrow().clone();
  let fired = sh.fired.borrow().clone();
  let fuel_used = (40_000 - env.fuel.get()) + EMITS.with(|e| e.get());
  Ok(MResult { traces, sub_counts: sc, factory_calls: fc, tap_log, probes, ended, reactions_fired: fired, fuel_used, subj_timeline })
}
