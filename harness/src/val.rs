//! Item type `V`, error payload, the fixed function family, liveness tokens.

use serde::{Deserialize, Serialize};
use std::sync::atomic::{AtomicI64, Ordering};
use std::sync::Arc;

/// Per-case context: liveness counters for items and closures (C17) and nothing else.
#[derive(Debug, Default)]
pub struct CaseCtx {
  pub live_items: AtomicI64,
  pub live_closures: AtomicI64,
  pub made_items: AtomicI64,
}

impl CaseCtx {
  pub fn new() -> Arc<CaseCtx> {
    Arc::new(CaseCtx::default())
  }
}

/// token captured by every closure handed to the library
pub struct CTok(Arc<CaseCtx>);

impl CTok {
  pub fn new(c: &Arc<CaseCtx>) -> CTok {
    c.live_closures.fetch_add(1, Ordering::SeqCst);
    CTok(c.clone())
  }
  pub fn ctx(&self) -> &Arc<CaseCtx> {
    &self.0
  }
}

impl Clone for CTok {
  fn clone(&self) -> CTok {
    CTok::new(&self.0)
  }
}

impl Drop for CTok {
  fn drop(&mut self) {
    self.0.live_closures.fetch_sub(1, Ordering::SeqCst);
  }
}

struct ITok(Arc<CaseCtx>);

impl ITok {
  fn new(c: &Arc<CaseCtx>) -> ITok {
    c.live_items.fetch_add(1, Ordering::SeqCst);
    c.made_items.fetch_add(1, Ordering::SeqCst);
    ITok(c.clone())
  }
}

impl Drop for ITok {
  fn drop(&mut self) {
    self.0.live_items.fetch_sub(1, Ordering::SeqCst);
  }
}

/// plain value (what is compared, serialised, shown)
#[derive(Clone, Debug, PartialEq, Eq, Hash, PartialOrd, Ord, Serialize, Deserialize)]
pub enum P {
  I(i64),
  B(bool),
  U,
  L(Vec<P>),
  MNext(Box<P>),
  MErr(u32),
  MComplete,
}

impl P {
  pub fn as_i64(&self) -> i64 {
    match self {
      P::I(i) => *i,
      P::B(b) => *b as i64,
      P::U => 0,
      P::L(v) => v.iter().fold(0i64, |a, x| a.wrapping_add(x.as_i64())),
      P::MNext(x) => x.as_i64(),
      P::MErr(c) => *c as i64,
      P::MComplete => 0,
    }
  }
  pub fn show(&self) -> String {
    match self {
      P::I(i) => format!("{}", i),
      P::B(b) => format!("{}", b),
      P::U => "()".into(),
      P::L(v) => format!("[{}]", v.iter().map(|x| x.show()).collect::<Vec<_>>().join(",")),
      P::MNext(x) => format!("N({})", x.show()),
      P::MErr(c) => format!("E({})", c),
      P::MComplete => "C".into(),
    }
  }
}

/// item as the library sees it: plain value + liveness token; clone burns fuel
pub struct V {
  pub p: P,
  tok: Option<ITok>,
}

impl V {
  pub fn new(ctx: &Arc<CaseCtx>, p: P) -> V {
    V { p, tok: Some(ITok::new(ctx)) }
  }
  /// model side: no token
  pub fn plain(p: P) -> V {
    V { p, tok: None }
  }
  pub fn ctx(&self) -> Option<&Arc<CaseCtx>> {
    self.tok.as_ref().map(|t| &t.0)
  }
  /// new value with the same context as `self`
  pub fn with(&self, p: P) -> V {
    match &self.tok {
      Some(t) => V::new(&t.0, p),
      None => V::plain(p),
    }
  }
}

impl Clone for V {
  fn clone(&self) -> V {
    arx_rt::burn(1);
    V { p: self.p.clone(), tok: self.tok.as_ref().map(|t| ITok::new(&t.0)) }
  }
}

impl std::fmt::Debug for V {
  fn fmt(&self, f: &mut std::fmt::Formatter<'_>) -> std::fmt::Result {
    f.write_str(&self.p.show())
  }
}

impl PartialEq for V {
  fn eq(&self, o: &V) -> bool {
    self.p == o.p
  }
}
impl Eq for V {}
impl std::hash::Hash for V {
  fn hash<H: std::hash::Hasher>(&self, h: &mut H) {
    self.p.hash(h)
  }
}
impl PartialOrd for V {
  fn partial_cmp(&self, o: &V) -> Option<std::cmp::Ordering> {
    Some(self.p.cmp(&o.p))
  }
}
impl std::ops::Add for V {
  type Output = V;
  fn add(self, o: V) -> V {
    let p = P::I(self.p.as_i64().wrapping_add(o.p.as_i64()));
    self.with(p)
  }
}

#[derive(Clone, Debug, PartialEq, Eq)]
pub struct ErrPayload(pub u32);

// ---------------------------------------------------------------------------------------
// function family (pure, total, wrapping)

#[derive(Clone, Debug, PartialEq, Eq, Hash, Serialize, Deserialize)]
pub enum MapF {
  Add(i64),
  Mul(i64),
  Mod(i64),
  Neg,
  Const(i64),
}

impl MapF {
  pub fn ap(&self, p: &P) -> P {
    let x = p.as_i64();
    P::I(match self {
      MapF::Add(k) => x.wrapping_add(*k),
      MapF::Mul(k) => x.wrapping_mul(*k),
      MapF::Mod(k) => x.rem_euclid((*k).max(1)),
      MapF::Neg => x.wrapping_neg(),
      MapF::Const(k) => *k,
    })
  }
}

#[derive(Clone, Debug, PartialEq, Eq, Hash, Serialize, Deserialize)]
pub enum Pred {
  Lt(i64),
  Ge(i64),
  Eq(i64),
  Ne(i64),
  Even,
  True,
  False,
}

impl Pred {
  pub fn ap(&self, p: &P) -> bool {
    let x = p.as_i64();
    match self {
      Pred::Lt(k) => x < *k,
      Pred::Ge(k) => x >= *k,
      Pred::Eq(k) => x == *k,
      Pred::Ne(k) => x != *k,
      Pred::Even => x.rem_euclid(2) == 0,
      Pred::True => true,
      Pred::False => false,
    }
  }
}

#[derive(Clone, Debug, PartialEq, Eq, Hash, Serialize, Deserialize)]
pub enum Fold {
  Add,
  Max,
  Mix,
}

impl Fold {
  pub fn ap(&self, a: &P, b: &P) -> P {
    let (x, y) = (a.as_i64(), b.as_i64());
    P::I(match self {
      Fold::Add => x.wrapping_add(y),
      Fold::Max => x.max(y),
      Fold::Mix => x.wrapping_mul(31).wrapping_add(y),
    })
  }
}

/// retry_when predicates over the error code
#[derive(Clone, Debug, PartialEq, Eq, Hash, Serialize, Deserialize)]
pub enum RPred {
  Always,
  Never,
  CodeLt(u32),
}

impl RPred {
  pub fn ap(&self, code: u32) -> bool {
    match self {
      RPred::Always => true,
      RPred::Never => false,
      RPred::CodeLt(k) => code < *k,
    }
  }
}
