//! Pipeline AST, source scripts, driver actions, cases. Everything is serialisable: a
//! replay file is a `Case` (+ schedule).

use crate::val::*;
use serde::{Deserialize, Serialize};

pub const SENTINEL: i64 = 77;

#[derive(Clone, Debug, PartialEq, Eq, Hash, Serialize, Deserialize)]
pub enum Ev {
  N(i64),
  E(u32),
  C,
}

impl Ev {
  pub fn is_terminal(&self) -> bool {
    !matches!(self, Ev::N(_))
  }
}

pub fn well_formed(s: &[Ev]) -> bool {
  match s.iter().position(|e| e.is_terminal()) {
    None => true,
    Some(p) => p == s.len() - 1,
  }
}

#[derive(Clone, Debug, PartialEq, Eq, Hash, Serialize, Deserialize)]
pub enum HotKind {
  /// harness-owned hot source: observers served in subscription order
  Harness,
  Subject,
  Behavior(i64),
  Replay,
  Async,
}

#[derive(Clone, Debug, PartialEq, Eq, Hash, Serialize, Deserialize)]
pub enum Src {
  /// plays the script synchronously at subscribe time; polite = polls is_subscribed
  Cold { script: Vec<Ev>, polite: bool },
  /// k-th subscription plays scripts[min(k, len-1)]
  PerSub { scripts: Vec<Vec<Ev>>, polite: bool },
  Hot(usize),
  Just(i64),
  FromIter(Vec<i64>),
  Range(i64, i64),
  Empty,
  Never,
  Error(u32),
  Start(i64),
  FromResult(Result<i64, u32>),
  Something(Result<i64, u32>),
  /// unbounded; only generated below a limiting operator
  Repeat(i64),
  /// endless from_iter(start..); only generated below a limiting operator
  Endless(i64),
  /// interval(ms) on a new-thread scheduler, mapped to V::I
  Interval(u64),
  /// timer(ms) on a new-thread scheduler, mapped to V::U
  Timer(u64),
  /// interval / timer on the default scheduler: they run on (and block) the subscribing thread
  IntervalDefault(u64),
  /// periods in microseconds (not a whole number of milliseconds)
  IntervalUs(u64),
  TimerUs(u64),
  TimerDefault(u64),
}

#[derive(Clone, Debug, PartialEq, Eq, Hash, Serialize, Deserialize)]
pub enum Op {
  Map(MapF),
  Filter(Pred),
  Take(usize),
  TakeLast(usize),
  TakeWhile(Pred),
  Skip(usize),
  SkipLast(usize),
  SkipWhile(Pred),
  First,
  Last,
  ElementAt(usize),
  Distinct,
  Scan(Fold),
  Reduce(Fold),
  Count,
  Sum,
  SumAndCount,
  Min,
  Max,
  All(Pred),
  Contains(i64),
  DefaultIfEmpty(i64),
  IgnoreElements,
  StartWith(Vec<i64>),
  Buffer(usize),
  /// window_with_count(n) observed through flat_map(|w| w.map(tag(window#)))
  Window(usize),
  /// window_with_count(n).flat_map(|w| w.count()): one number per window, emitted when the
  /// window is completed (a window that is failed contributes nothing)
  WindowCounts(usize),
  /// group_by(x mod k) observed through flat_map(|g| g.map(tag(group#)))
  GroupBy(i64),
  /// group_by(x mod k).flat_map(|g| g.take(1).map(tag(group#))): the subscriber of every
  /// group leaves after its first item, while the outer stream goes on (= the first item of
  /// every key, one group per key)
  GroupFirsts(i64),
  /// window_with_count(n).flat_map(|w| w.take(1).map(tag(window#))): the first item of every window
  WindowFirsts(usize),
  Materialize,
  Dematerialize,
  Tap,
  MapToAny,
  Retry(usize),
  RetryWhen(RPred),
  /// observe_on(default_scheduler) / subscribe_on(default_scheduler)
  ObserveOnDefault,
  SubscribeOnDefault,
  /// observe_on(new_thread_scheduler) / subscribe_on(new_thread_scheduler)
  ObserveOnNew,
  SubscribeOnNew,
  Delay(u64),
  Debounce(u64),
  Timeout(u64),
  Timestamp,
  TimeInterval,
  /// x.ref_count().observable() / x.replay().observable() built once per pipeline value
  RefCount,
  ReplayConn,
}

#[derive(Clone, Debug, PartialEq, Eq, Hash, Serialize, Deserialize)]
pub enum Comb {
  Merge,
  Concat,
  Zip,
  CombineLatest,
  Amb,
  SequenceEqual,
}

#[derive(Clone, Debug, PartialEq, Eq, Hash, Serialize, Deserialize)]
pub enum Gate {
  TakeUntil,
  SkipUntil,
  Sample,
  SwitchOnNext,
}

#[derive(Clone, Debug, PartialEq, Eq, Hash, Serialize, Deserialize)]
pub enum Node {
  /// (source id, source)
  Src(usize, Src),
  Un(Op, Box<Node>),
  /// first element is the receiver (`self`), the rest is the slice argument
  Nary(Comb, Vec<Node>),
  /// (source, trigger/target)
  Gate(Gate, Box<Node>, Box<Node>),
  /// flat_map(|x| table[x mod n])
  FlatMap(Box<Node>, Vec<Node>),
  /// on_error_resume_next(|e| table[code mod n])
  Resume(Box<Node>, Vec<Node>),
  /// (defer id, inner): defer(|| inner)
  Defer(usize, Box<Node>),
  /// ready_set_go(|| emit script into hot i, inner)
  ReadySetGo(usize, Vec<Ev>, Box<Node>),
}

impl Node {
  pub fn children(&self) -> Vec<&Node> {
    match self {
      Node::Src(_, _) => vec![],
      Node::Un(_, n) | Node::Defer(_, n) | Node::ReadySetGo(_, _, n) => vec![n],
      Node::Nary(_, v) => v.iter().collect(),
      Node::Gate(_, a, b) => vec![a, b],
      Node::FlatMap(s, t) | Node::Resume(s, t) => {
        let mut v: Vec<&Node> = vec![s];
        v.extend(t.iter());
        v
      }
    }
  }

  pub fn children_mut(&mut self) -> Vec<&mut Node> {
    match self {
      Node::Src(_, _) => vec![],
      Node::Un(_, n) | Node::Defer(_, n) | Node::ReadySetGo(_, _, n) => vec![n],
      Node::Nary(_, v) => v.iter_mut().collect(),
      Node::Gate(_, a, b) => vec![a, b],
      Node::FlatMap(s, t) | Node::Resume(s, t) => {
        let mut v: Vec<&mut Node> = vec![s];
        v.extend(t.iter_mut());
        v
      }
    }
  }

  pub fn walk<'a>(&'a self, f: &mut dyn FnMut(&'a Node)) {
    f(self);
    for c in self.children() {
      c.walk(f);
    }
  }

  /// give every source / defer node a distinct id (preorder); returns the number of ids
  pub fn renumber(&mut self) -> usize {
    fn go(n: &mut Node, next: &mut usize) {
      match n {
        Node::Src(id, _) | Node::Defer(id, _) => {
          *id = *next;
          *next += 1;
        }
        _ => {}
      }
      for c in n.children_mut() {
        go(c, next);
      }
    }
    let mut next = 0;
    go(self, &mut next);
    next
  }

  pub fn size(&self) -> usize {
    let mut n = 0;
    self.walk(&mut |_| n += 1);
    n
  }

  pub fn ops(&self) -> Vec<String> {
    let mut v = Vec::new();
    self.walk(&mut |n| {
      v.push(match n {
        Node::Src(_, s) => format!("src:{}", src_name(s)),
        Node::Un(op, _) => op_name(op),
        Node::Nary(c, _) => format!("{:?}", c).to_lowercase(),
        Node::Gate(g, _, _) => format!("{:?}", g).to_lowercase(),
        Node::FlatMap(_, _) => "flat_map".into(),
        Node::Resume(_, _) => "on_error_resume_next".into(),
        Node::Defer(_, _) => "defer".into(),
        Node::ReadySetGo(_, _, _) => "ready_set_go".into(),
      })
    });
    v
  }

  pub fn hot_ids(&self) -> Vec<usize> {
    let mut v = Vec::new();
    self.walk(&mut |n| match n {
      Node::Src(_, Src::Hot(i)) => v.push(*i),
      Node::ReadySetGo(i, _, _) => v.push(*i),
      _ => {}
    });
    v
  }

  pub fn has_op(&self, f: &dyn Fn(&Node) -> bool) -> bool {
    let mut r = false;
    self.walk(&mut |n| {
      if f(n) {
        r = true
      }
    });
    r
  }

  /// compact rendering for evidence samples
  pub fn show(&self) -> String {
    match self {
      Node::Src(_, s) => show_src(s),
      Node::Un(op, n) => format!("{}.{}", n.show(), show_op(op)),
      Node::Nary(c, v) => format!(
        "{}.{}([{}])",
        v[0].show(),
        format!("{:?}", c).to_lowercase(),
        v[1..].iter().map(|x| x.show()).collect::<Vec<_>>().join(", ")
      ),
      Node::Gate(g, a, b) => {
        format!("{}.{}({})", a.show(), format!("{:?}", g).to_lowercase(), b.show())
      }
      Node::FlatMap(s, t) => format!(
        "{}.flat_map(x->[{}][x%{}])",
        s.show(),
        t.iter().map(|x| x.show()).collect::<Vec<_>>().join(" | "),
        t.len()
      ),
      Node::Resume(s, t) => format!(
        "{}.on_error_resume_next(e->[{}][e%{}])",
        s.show(),
        t.iter().map(|x| x.show()).collect::<Vec<_>>().join(" | "),
        t.len()
      ),
      Node::Defer(_, n) => format!("defer({})", n.show()),
      Node::ReadySetGo(i, s, n) => format!("ready_set_go(emit {} into hot{}, {})", show_script(s), i, n.show()),
    }
  }
}

pub fn show_script(s: &[Ev]) -> String {
  let v: Vec<String> = s
    .iter()
    .map(|e| match e {
      Ev::N(i) => format!("{}", i),
      Ev::E(c) => format!("E{}", c),
      Ev::C => "C".to_string(),
    })
    .collect();
  format!("<{}>", v.join(" "))
}

pub fn src_name(s: &Src) -> &'static str {
  match s {
    Src::Cold { .. } => "cold",
    Src::PerSub { .. } => "persub",
    Src::Hot(_) => "hot",
    Src::Just(_) => "just",
    Src::FromIter(_) => "from_iter",
    Src::Range(_, _) => "range",
    Src::Empty => "empty",
    Src::Never => "never",
    Src::Error(_) => "error",
    Src::Start(_) => "start",
    Src::FromResult(_) => "from_result",
    Src::Something(_) => "something",
    Src::Repeat(_) => "repeat",
    Src::Endless(_) => "endless",
    Src::Interval(_) => "interval",
    Src::Timer(_) => "timer",
    Src::IntervalDefault(_) => "interval_default",
    Src::IntervalUs(_) => "interval_us",
    Src::TimerUs(_) => "timer_us",
    Src::TimerDefault(_) => "timer_default",
  }
}

pub fn show_src(s: &Src) -> String {
  match s {
    Src::Cold { script, polite } => {
      format!("cold{}{}", if *polite { "" } else { "!" }, show_script(script))
    }
    Src::PerSub { scripts, polite } => format!(
      "persub{}[{}]",
      if *polite { "" } else { "!" },
      scripts.iter().map(|s| show_script(s)).collect::<Vec<_>>().join(";")
    ),
    Src::Hot(i) => format!("hot{}", i),
    other => format!("{:?}", other).to_lowercase(),
  }
}

pub fn op_name(op: &Op) -> String {
  let s = format!("{:?}", op);
  let s = s.split('(').next().unwrap().to_string();
  // CamelCase -> snake_case
  let mut out = String::new();
  for (i, c) in s.chars().enumerate() {
    if c.is_uppercase() && i > 0 {
      out.push('_');
    }
    out.push(c.to_ascii_lowercase());
  }
  out
}

pub fn show_op(op: &Op) -> String {
  let s = format!("{:?}", op);
  match s.find('(') {
    Some(p) => format!("{}{}", op_name(op), &s[p..]),
    None => format!("{}()", op_name(op)),
  }
}

// ---------------------------------------------------------------------------------------
// driver

#[derive(Clone, Debug, PartialEq, Eq, Hash, Serialize, Deserialize)]
pub enum React {
  /// unsubscribe the recorder's own subscription
  UnsubSelf,
  /// emit into hot source i
  Emit(usize, Ev),
  /// subscribe recorder k (must not be subscribed yet) to the root
  Subscribe(usize),
}

/// `Reaction::at` value meaning "inside the terminal callback (error or complete)"
pub const AT_TERMINAL: usize = 999;

/// "when the n-th next (0-based) arrives at this recorder, do ..."
#[derive(Clone, Debug, PartialEq, Eq, Hash, Serialize, Deserialize)]
pub struct Reaction {
  pub at: usize,
  pub what: React,
}

#[derive(Clone, Debug, PartialEq, Eq, Hash, Serialize, Deserialize)]
pub enum Action {
  /// subscribe recorder k to the root pipeline
  Subscribe(usize),
  /// emit an event into hot source i
  Emit(usize, Ev),
  /// Subscription::unsubscribe of recorder k (no-op if not subscribed yet)
  Unsub(usize),
  /// wrap recorder k's subscription into a Using guard and drop it
  DropUsing(usize),
  /// the Using guard is dropped the way unwinding would drop it (`thread::panicking()` is
  /// true meanwhile)
  DropUsingUnwinding(usize),
  /// the caller drops its handle of the pipeline value (the Observable) while subscriptions
  /// are still alive; nothing can be subscribed afterwards
  DropObservable,
  /// the caller reads Subscription::is_subscribed() (from whatever thread runs this action)
  IsSubscribed(usize),
  /// advance virtual time by ms (lets timers fire)
  Advance(u64),
  /// connectable cases: publish().connect() / unsubscribe the connection
  Connect,
  Disconnect,
}

#[derive(Clone, Debug, PartialEq, Eq, Hash, Serialize, Deserialize)]
pub enum ConnKind {
  Publish,
  RefCount,
  Replay,
}

#[derive(Clone, Debug, PartialEq, Eq, Hash, Serialize, Deserialize)]
pub struct Case {
  pub root: Node,
  pub hots: Vec<HotKind>,
  /// ill-formed hot sources keep serving their observers after a terminal
  pub hot_illformed: bool,
  /// Some(kind): `root` is the *source* of root.publish() / ref_count() / replay(), and the
  /// recorders subscribe to the connectable's observable()
  #[serde(default)]
  pub conn: Option<ConnKind>,
  /// connectable cases: every recorder subscribes to `observable().take(n)`
  #[serde(default)]
  pub conn_take: Option<usize>,
  /// connectable cases: `Some(k)` - only recorder k goes through the take(n), the others
  /// subscribe to `observable()` itself
  #[serde(default)]
  pub conn_take_only: Option<usize>,
  pub recorders: Vec<Vec<Reaction>>,
  pub actions: Vec<Action>,
}

impl Case {
  pub fn show(&self) -> String {
    let acts: Vec<String> = self
      .actions
      .iter()
      .map(|a| match a {
        Action::Subscribe(k) => format!("sub{}", k),
        Action::Emit(i, Ev::N(v)) => format!("h{}!{}", i, v),
        Action::Emit(i, Ev::E(c)) => format!("h{}!E{}", i, c),
        Action::Emit(i, Ev::C) => format!("h{}!C", i),
        Action::Unsub(k) => format!("unsub{}", k),
        Action::DropUsing(k) => format!("dropusing{}", k),
        Action::DropUsingUnwinding(k) => format!("dropusing{}(unwinding)", k),
        Action::Advance(ms) => format!("+{}ms", ms),
        Action::DropObservable => "drop-observable".to_string(),
        Action::IsSubscribed(k) => format!("is_subscribed{}?", k),
        Action::Connect => "connect".to_string(),
        Action::Disconnect => "disconnect".to_string(),
      })
      .collect();
    let reacts: Vec<String> = self
      .recorders
      .iter()
      .enumerate()
      .filter(|(_, r)| !r.is_empty())
      .map(|(k, r)| format!("r{}:{:?}", k, r))
      .collect();
    format!(
      "{}{} | hots={:?}{} | {} {}",
      self.root.show(),
      match &self.conn {
        Some(k) => format!(".{:?}(){}", k, self.conn_take.map_or(String::new(), |n| match self.conn_take_only { None => format!(".take({})", n), Some(k) => format!(".[observer {} only: take({})]", k, n) })).to_lowercase(),
        None => String::new(),
      },
      self.hots,
      if self.hot_illformed { " ill-formed" } else { "" },
      acts.join(" "),
      reacts.join(" ")
    )
  }
}
