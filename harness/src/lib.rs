//! arxv harness: generators, reference interpreter, oracles (library part, also used by the
//! coverage-guided fuzz target in /verif/fuzz).
pub mod ast;
pub mod engine;
pub mod gen;
pub mod model;
pub mod props;
pub mod real;
pub mod val;
