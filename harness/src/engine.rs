//! Sharded proptest runner, evidence / replay writers, known-finding handling.

use arx_rt::Schedule;
use proptest::strategy::{BoxedStrategy, Strategy, ValueTree};
use proptest::test_runner::{Config, RngAlgorithm, RngSeed, TestCaseError, TestError, TestRng, TestRunner};
use serde::{de::DeserializeOwned, Deserialize, Serialize};
use std::collections::hash_map::DefaultHasher;
use std::collections::{BTreeMap, HashSet};
use std::hash::{Hash, Hasher};
use std::sync::atomic::{AtomicBool, AtomicU64, Ordering};
use std::sync::{Arc, Mutex};
use std::time::Instant;

#[derive(Clone, Copy, Debug, PartialEq, Eq)]
pub enum Tier {
  Quick,
  Thorough,
}

impl Tier {
  pub fn name(&self) -> &'static str {
    match self {
      Tier::Quick => "quick",
      Tier::Thorough => "thorough",
    }
  }
  pub fn pick<T>(&self, q: T, t: T) -> T {
    match self {
      Tier::Quick => q,
      Tier::Thorough => t,
    }
  }
}

#[derive(Clone, Debug, Default, PartialEq, Eq, Hash, Serialize, Deserialize)]
pub struct SchedJson {
  pub overrides: Vec<(u32, u8)>,
  pub walk: Option<(u64, u8)>,
  pub hash_seed: u64,
  pub notify_lifo: bool,
  #[serde(default)]
  pub spurious: bool,
  #[serde(default)]
  pub pct: Option<(u64, u8, u16)>,
}

impl From<&Schedule> for SchedJson {
  fn from(s: &Schedule) -> Self {
    SchedJson {
      overrides: s.overrides.clone(),
      walk: s.walk,
      hash_seed: s.hash_seed,
      notify_lifo: s.notify_lifo,
      spurious: s.spurious,
      pct: s.pct,
    }
  }
}

impl SchedJson {
  pub fn to_schedule(&self) -> Schedule {
    Schedule {
      overrides: self.overrides.clone(),
      walk: self.walk,
      hash_seed: self.hash_seed,
      notify_lifo: self.notify_lifo,
      spurious: self.spurious,
      pct: self.pct,
    }
  }
}

/// What one evaluation of a property on one generated case reports.
#[derive(Clone, Debug, Default)]
pub struct Report {
  pub fail: Option<String>,
  pub nontrivial: bool,
  pub classes: Vec<String>,
  /// excluded because it matches an open known finding (counted, not evaluated further)
  pub excluded: Option<String>,
  /// rendered case + observed behaviour, for evidence samples
  pub sample: Option<String>,
  /// replay-relevant extra data to store with a failure (e.g. explicit schedule)
  pub extra: Option<serde_json::Value>,
}

impl Report {
  pub fn ok() -> Report {
    Report::default()
  }
  pub fn fail(msg: impl Into<String>) -> Report {
    Report { fail: Some(msg.into()), ..Report::default() }
  }
  pub fn class(mut self, c: impl Into<String>) -> Report {
    self.classes.push(c.into());
    self
  }
}

#[derive(Clone, Debug, Serialize, Deserialize)]
pub struct ReplayFile {
  pub property: String,
  pub check: String,
  pub message: String,
  pub case: serde_json::Value,
}

pub struct SubResult {
  /// more than half of the cases ended in a runtime abort (deadlock / budget) that this
  /// sub-check does not judge: the run was cut short, its silence means nothing
  pub inconclusive: bool,
  pub name: String,
  pub evaluations: u64,
  pub nontrivial_distinct: u64,
  pub classes: BTreeMap<String, u64>,
  pub excluded: BTreeMap<String, u64>,
  pub samples: Vec<String>,
  pub failure: Option<(String, serde_json::Value)>,
  pub wall_s: f64,
}

fn hash_json<T: Serialize>(t: &T) -> u64 {
  let s = serde_json::to_string(t).unwrap_or_default();
  let mut h = DefaultHasher::new();
  s.hash(&mut h);
  h.finish()
}

fn seed_bytes(seed: u64, shard: u64, salt: &str) -> [u8; 32] {
  let mut h = DefaultHasher::new();
  (seed, shard, salt).hash(&mut h);
  let mut x = h.finish();
  let mut out = [0u8; 32];
  for chunk in out.chunks_mut(8) {
    x = x.wrapping_mul(6364136223846793005).wrapping_add(1442695040888963407);
    chunk.copy_from_slice(&x.to_le_bytes());
  }
  out
}

/// Run one sub-check: `shards` proptest runners in parallel, `cases` cases each.
pub fn run_sub<C, S, F>(name: &str, seed: u64, shards: u64, cases: u32, strat: S, check: F) -> SubResult
where
  C: std::fmt::Debug + Clone + Serialize + Send + 'static,
  S: Fn() -> BoxedStrategy<C> + Sync,
  F: Fn(&C) -> Report + Sync,
{
  let t0 = Instant::now();
  let evaluations = AtomicU64::new(0);
  let aborted_cases = AtomicU64::new(0);
  let inconclusive = AtomicBool::new(false);
  let stop = AtomicBool::new(false);
  let distinct: Mutex<HashSet<u64>> = Mutex::new(HashSet::new());
  let classes: Mutex<BTreeMap<String, u64>> = Mutex::new(BTreeMap::new());
  let excluded: Mutex<BTreeMap<String, u64>> = Mutex::new(BTreeMap::new());
  let samples: Mutex<Vec<String>> = Mutex::new(Vec::new());
  let failure: Mutex<Option<(String, serde_json::Value)>> = Mutex::new(None);
  std::thread::scope(|sc| {
    for shard in 0..shards {
      let (evaluations, stop, distinct, classes, excluded, samples, failure) =
        (&evaluations, &stop, &distinct, &classes, &excluded, &samples, &failure);
      let (aborted_cases, inconclusive) = (&aborted_cases, &inconclusive);
      let strat = &strat;
      let check = &check;
      let name = name.to_string();
      let builder = std::thread::Builder::new().stack_size(256 << 20).name(format!("shard{}", shard));
      let _ = builder.spawn_scoped(sc, move || {
        let cfg = Config {
          cases,
          failure_persistence: None,
          max_shrink_iters: 400,
          max_global_rejects: 100_000,
          rng_seed: RngSeed::Fixed(0),
          ..Config::default()
        };
        let rng = TestRng::from_seed(RngAlgorithm::ChaCha, &seed_bytes(seed, shard, &name));
        let mut runner = TestRunner::new_with_rng(cfg, rng);
        let counting = AtomicBool::new(true);
        let last_msg: Mutex<String> = Mutex::new(String::new());
        let res = runner.run(&strat(), |c| {
          if stop.load(Ordering::SeqCst) && counting.load(Ordering::SeqCst) {
            // another shard failed: stop early
            return Ok(());
          }
          let rep = check(&c);
          if counting.load(Ordering::SeqCst) {
            let n = evaluations.fetch_add(1, Ordering::SeqCst) + 1;
            if rep.fail.is_none() && rep.classes.iter().any(|c| c.starts_with("aborted:")) {
              let a = aborted_cases.fetch_add(1, Ordering::SeqCst) + 1;
              if n >= 2000 && a * 2 > n {
                inconclusive.store(true, Ordering::SeqCst);
                stop.store(true, Ordering::SeqCst);
              }
            }
            if let Some(x) = &rep.excluded {
              *excluded.lock().unwrap().entry(x.clone()).or_insert(0) += 1;
            }
            {
              let mut cl = classes.lock().unwrap();
              for c in &rep.classes {
                *cl.entry(c.clone()).or_insert(0) += 1;
              }
            }
            if rep.nontrivial && rep.fail.is_none() {
              let h = hash_json(&c);
              let fresh = distinct.lock().unwrap().insert(h);
              if fresh {
                let mut s = samples.lock().unwrap();
                if s.len() < 6 {
                  if let Some(x) = &rep.sample {
                    s.push(x.clone());
                  }
                }
              }
            }
          }
          match rep.fail {
            Some(m) => {
              counting.store(false, Ordering::SeqCst);
              *last_msg.lock().unwrap() = m.clone();
              Err(TestCaseError::fail(m))
            }
            None => Ok(()),
          }
        });
        if let Err(TestError::Fail(_, minimal)) = res {
          stop.store(true, Ordering::SeqCst);
          // re-run the minimal case outside proptest to confirm and to get its message
          let rep = check(&minimal);
          let msg = rep.fail.unwrap_or_else(|| format!("(flaky: not reproduced) {}", last_msg.lock().unwrap()));
          let mut f = failure.lock().unwrap();
          if f.is_none() {
            *f = Some((msg, serde_json::to_value(&minimal).unwrap_or(serde_json::Value::Null)));
          }
        } else if let Err(TestError::Abort(r)) = res {
          let mut f = failure.lock().unwrap();
          if f.is_none() {
            *f = Some((format!("generator aborted: {}", r), serde_json::Value::Null));
          }
        }
      });
    }
  });
  let nd = distinct.lock().unwrap().len() as u64;
  SubResult {
    inconclusive: inconclusive.load(Ordering::SeqCst),
    name: name.to_string(),
    evaluations: evaluations.load(Ordering::SeqCst),
    nontrivial_distinct: nd,
    classes: classes.into_inner().unwrap(),
    excluded: excluded.into_inner().unwrap(),
    samples: samples.into_inner().unwrap(),
    failure: failure.into_inner().unwrap(),
    wall_s: t0.elapsed().as_secs_f64(),
  }
}

/// draw one value from a strategy deterministically (for probes / debugging)
pub fn sample_one<C: std::fmt::Debug>(strat: &BoxedStrategy<C>, seed: u64) -> C {
  let rng = TestRng::from_seed(RngAlgorithm::ChaCha, &seed_bytes(seed, 0, "sample"));
  let mut runner = TestRunner::new_with_rng(Config::default(), rng);
  strat.new_tree(&mut runner).unwrap().current()
}

// ---------------------------------------------------------------------------------------
// known findings

#[derive(Clone, Debug, Serialize, Deserialize)]
pub struct KnownFinding {
  pub id: String,
  pub property: String,
  /// "open" or "fixed"
  pub status: String,
  pub what: String,
  /// replay file (relative to /verif) that reproduces it
  #[serde(default)]
  pub probe: Option<String>,
  /// generator / oracle exclusion switch that is turned on while the probe still fails
  #[serde(default)]
  pub exclude: Option<String>,
  #[serde(default)]
  pub commit: Option<String>,
}

#[derive(Clone, Debug, Default, Serialize, Deserialize)]
pub struct KnownFile {
  pub findings: Vec<KnownFinding>,
}

pub fn load_known(root: &str) -> KnownFile {
  let p = format!("{}/known_findings.json", root);
  match std::fs::read_to_string(&p) {
    Ok(s) => serde_json::from_str(&s).unwrap_or_else(|e| panic!("{}: {}", p, e)),
    Err(_) => KnownFile::default(),
  }
}

// ---------------------------------------------------------------------------------------
// evidence + verdict

pub struct CheckOutput {
  pub property: String,
  pub tier: Tier,
  pub seed: u64,
  pub rule: String,
  pub assumptions: Vec<String>,
  pub subs: Vec<SubResult>,
  pub known_lines: Vec<String>,
  pub exclusions_active: Vec<String>,
  pub replayed: Vec<(String, bool)>,
  pub skipped: Vec<String>,
}

pub fn write_replay(root: &str, property: &str, check: &str, msg: &str, case: &serde_json::Value) -> String {
  let rf = ReplayFile { property: property.into(), check: check.into(), message: msg.into(), case: case.clone() };
  let h = hash_json(&rf.case);
  let dir = format!("{}/replays", root);
  let _ = std::fs::create_dir_all(&dir);
  let path = format!("{}/{}-{}-{:016x}.json", dir, property, check, h);
  std::fs::write(&path, serde_json::to_string_pretty(&rf).unwrap()).unwrap();
  path
}

/// writes evidence, prints lines, returns the process exit code
pub fn finish(root: &str, out: CheckOutput, wall_s: f64) -> i32 {
  let mut violations = 0;
  let mut evaluations = 0u64;
  let mut nontrivial = 0u64;
  let mut samples: Vec<serde_json::Value> = Vec::new();
  let mut per_sub = Vec::new();
  for l in &out.known_lines {
    println!("{}", l);
  }
  for s in &out.subs {
    evaluations += s.evaluations;
    nontrivial += s.nontrivial_distinct;
    for x in s.samples.iter().take(3) {
      samples.push(serde_json::json!({"check": s.name, "case": x}));
    }
    per_sub.push(serde_json::json!({
      "check": s.name,
      "evaluations": s.evaluations,
      "distinct_nontrivial": s.nontrivial_distinct,
      "classes": s.classes,
      "excluded_by_known_finding": s.excluded,
      "wall_s": s.wall_s,
      "failed": s.failure.is_some(),
      "inconclusive": s.inconclusive,
    }));
    if let Some((msg, case)) = &s.failure {
      violations += 1;
      let path = write_replay(root, &out.property, &s.name, msg, case);
      eprintln!("[{}:{}] {}", out.property, s.name, msg);
      println!("VIOLATION property={} replay={}", out.property, path);
    }
  }
  for (path, ok) in &out.replayed {
    if !ok {
      violations += 1;
      println!("VIOLATION property={} replay={}", out.property, path);
    }
  }
  if samples.is_empty() {
    samples.push(serde_json::json!({"note": "no non-trivial sample rendered"}));
  }
  let ev = serde_json::json!({
    "property_id": out.property,
    "tier": out.tier.name(),
    "seed": out.seed,
    "level": "exploration",
    "coverage": {
      "evaluations": evaluations,
      "distinct_nontrivial": nontrivial,
      "rule": out.rule,
      "samples": samples,
      "sub_checks": per_sub,
      "known_findings_reported": out.known_lines,
      "exclusions_active": out.exclusions_active,
      "replayed_files": out.replayed.iter().map(|(p, ok)| serde_json::json!({"file": p, "held": ok})).collect::<Vec<_>>(),
      "skipped_sub_checks": out.skipped,
      "fuzz_tier": std::fs::read_to_string(format!("{}/target/fuzz_stats_{}.json", root, out.property))
        .ok()
        .and_then(|s| serde_json::from_str::<serde_json::Value>(&s).ok())
        .unwrap_or(serde_json::Value::Null),
      "exhaustive": false,
    },
    "assumptions": out.assumptions,
    "wall_s": wall_s,
    "violations": violations,
  });
  let dir = format!("{}/evidence", root);
  let _ = std::fs::create_dir_all(&dir);
  std::fs::write(format!("{}/{}.json", dir, out.property), serde_json::to_string_pretty(&ev).unwrap()).unwrap();
  eprintln!(
    "[{}] tier={} seed={} evaluations={} distinct_nontrivial={} violations={} wall={:.1}s",
    out.property,
    out.tier.name(),
    out.seed,
    evaluations,
    nontrivial,
    violations,
    wall_s
  );
  if violations > 0 {
    1
  } else if out.subs.iter().any(|s| s.inconclusive) {
    for s in out.subs.iter().filter(|s| s.inconclusive) {
      eprintln!(
        "[{}:{}] inconclusive: more than half of the cases ended in a deadlock / budget abort that this sub-check does not judge (see C07)",
        out.property, s.name
      );
    }
    2
  } else {
    0
  }
}

pub fn from_json<T: DeserializeOwned>(v: &serde_json::Value) -> Result<T, String> {
  serde_json::from_value(v.clone()).map_err(|e| e.to_string())
}

pub fn arc<T>(t: T) -> Arc<T> {
  Arc::new(t)
}
