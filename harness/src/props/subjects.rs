//! C10: the four subject types against the reference state machine (sequential histories).

use super::diff::{diff, DiffOpts};
use super::seq_inv::SeqCase;
use super::*;
use crate::ast::*;
use proptest::prelude::*;

#[derive(Clone, Debug)]
enum SOp {
  Sub(usize),
  Unsub(usize),
  Next(i64),
  Error,
  Complete,
}

fn sop(nobs: usize, next_weight: u32) -> BoxedStrategy<SOp> {
  prop_oneof![
    3 => (0usize..nobs).prop_map(SOp::Sub),
    2 => (0usize..nobs).prop_map(SOp::Unsub),
    next_weight => (0i64..3).prop_map(SOp::Next),
    1 => Just(SOp::Error),
    1 => Just(SOp::Complete),
  ]
  .boxed()
}

fn c10_strategy(ctx: &Ctx) -> BoxedStrategy<SeqCase> {
  c10_strategy_sized(ctx.tier.pick(12, 20), 3, 3, 4)
}

/// histories of tens to a few hundred calls, up to 40 observers: sizes at which a container
/// re-allocates, a batch boundary is crossed, a serial number could wrap
fn c10_large_strategy(_ctx: &Ctx) -> BoxedStrategy<SeqCase> {
  prop_oneof![
    // long histories, few observers (a long stored history before a late subscriber)
    c10_strategy_sized(160, 3, 70, 60),
    // many observers
    c10_strategy_sized(120, 40, 8, 6),
  ]
  .boxed()
}

fn c10_strategy_sized(max: usize, nobs: usize, at_max: usize, next_weight: u32) -> BoxedStrategy<SeqCase> {
  let kinds = prop::sample::select(vec![HotKind::Subject, HotKind::Behavior(9), HotKind::Replay, HotKind::Async]);
  // optionally observer 0 subscribes observer 2 from inside its n-th next callback
  // (or from inside its terminal callback: the subject is mid-way through its terminal then)
  let nested = prop::option::weighted(0.3, prop_oneof![3 => 0usize..at_max, 1 => Just(AT_TERMINAL)]);
  // optionally an observer pushes an item into the subject from inside its n-th next
  // callback (re-entrant next: "once each" also holds for it)
  let reemit = prop::option::weighted(0.3, (0usize..3, 0usize..at_max, 3i64..5));
  (kinds, prop::collection::vec(sop(nobs, next_weight), 1..=max), any::<bool>(), nested, reemit, 0u64..4)
    .prop_map(move |(kind, ops, via_op, nested, reemit, hash_seed)| {
      let mut actions = Vec::new();
      let mut terminated = false;
      let mut subscribed = vec![false; nobs];
      for op in ops {
        // what may follow a terminal is only fixed for some operations (DESIGN.md, C10)
        let allowed_after = |op: &SOp| match (&kind, op) {
          (HotKind::Subject, _) => true,
          (HotKind::Behavior(_), SOp::Sub(_)) | (HotKind::Replay, SOp::Sub(_)) => true,
          // (a producer that goes on after its own terminal: the stored terminal stays what a
          // new subscriber is handed)
          (HotKind::Behavior(_), SOp::Next(_)) | (HotKind::Replay, SOp::Next(_)) => true,
          (_, SOp::Unsub(_)) => true,
          _ => false,
        };
        if terminated && !allowed_after(&op) {
          continue;
        }
        match op {
          SOp::Sub(k) => {
            if !subscribed[k] {
              subscribed[k] = true;
              actions.push(Action::Subscribe(k));
            }
          }
          SOp::Unsub(k) => {
            if subscribed[k] {
              actions.push(Action::Unsub(k));
            }
          }
          SOp::Next(v) => actions.push(Action::Emit(0, Ev::N(v))),
          SOp::Error => {
            terminated = true;
            actions.push(Action::Emit(0, Ev::E(1)))
          }
          SOp::Complete => {
            terminated = true;
            actions.push(Action::Emit(0, Ev::C))
          }
        }
      }
      let mut root = Node::Src(0, Src::Hot(0));
      if via_op {
        root = Node::Un(Op::Map(crate::val::MapF::Add(0)), Box::new(root));
      }
      root.renumber();
      SeqCase {
        case: Case {
          root,
          hots: vec![kind.clone()],
          hot_illformed: false,
          conn: None, conn_take: None, conn_take_only: None,
          recorders: {
            let mut rs = vec![vec![]; nobs];
            rs[0] = match (nested, &kind) {
              // (an AsyncSubject observer only hears from the subject on completion)
              (Some(at), k) if *k != HotKind::Async => vec![Reaction { at, what: React::Subscribe(2) }],
              _ => vec![],
            };
            if let (Some((k, at, v)), false, true) = (reemit, kind == HotKind::Async, nested.is_none()) {
              rs[k].push(Reaction { at, what: React::Emit(0, Ev::N(v)) });
            }
            rs
          },
          actions,
        },
        hash_seed,
      }
    })
    .boxed()
}

fn c10_check(_ctx: &Ctx, c: &SeqCase) -> Report {
  // a re-entrant next reaches the observers in the subject's (unspecified) broadcast order:
  // "once each" is then compared per observer as a multiset
  let reentrant = c.case.recorders.iter().flatten().any(|r| matches!(r.what, React::Emit(_, _)));
  let out = diff(c, DiffOpts { unordered_items: reentrant, ..Default::default() });
  let mut rep = out.rep;
  rep.classes.push(format!("kind:{:?}", c.case.hots[0]).split('(').next().unwrap().to_string());
  // non-trivial: a subscribe after >= 1 next, or an unsubscribe followed by a next, or any
  // operation after a terminal
  let mut seen_next = false;
  let mut seen_unsub = false;
  let mut seen_term = false;
  let mut nt = false;
  for a in &c.case.actions {
    if seen_term {
      nt = true;
      rep.classes.push("op-after-terminal".into());
    }
    match a {
      Action::Subscribe(_) if seen_next => {
        nt = true;
        rep.classes.push("late-subscribe".into());
      }
      Action::Unsub(_) => seen_unsub = true,
      Action::Emit(_, Ev::N(_)) => {
        if seen_unsub {
          nt = true;
          rep.classes.push("next-after-unsubscribe".into());
        }
        seen_next = true;
      }
      Action::Emit(_, _) => seen_term = true,
      _ => {}
    }
  }
  if let Some(r) = &out.real {
    if r.log.reactions_fired.iter().any(|(k, ri)| matches!(c.case.recorders[*k][*ri].what, React::Emit(_, _))) {
      rep.classes.push("reentrant-next".into());
      nt = true;
    }
  }
  rep.classes.sort();
  rep.classes.dedup();
  rep.nontrivial = out.real.is_some() && nt;
  if rep.fail.is_some() {
    return rep;
  }
  if let (Some(r), Some(m)) = (&out.real, &out.model) {
    // registered-observer count after every operation
    for (i, row) in r.log.subj_timeline.iter().enumerate() {
      if let (Some(Some(actual)), Some(exp)) = (row.first(), m.subj_timeline.get(i).and_then(|x| x.first())) {
        if actual != exp {
          rep.fail = Some(format!(
            "after action {} ({:?}) the subject holds {} observer(s), reference {} | {}",
            i,
            c.case.actions[i],
            actual,
            exp,
            super::seq_inv::render(c, r)
          ));
          return rep;
        }
      }
    }
  }
  rep
}

fn c10_large_check(ctx: &Ctx, c: &SeqCase) -> Report {
  let mut rep = c10_check(ctx, c);
  let (mut stored, mut late) = (0usize, false);
  for a in &c.case.actions {
    match a {
      Action::Emit(_, Ev::N(_)) => stored += 1,
      Action::Subscribe(_) if stored >= 32 => late = true,
      _ => {}
    }
  }
  let observers = c.case.actions.iter().filter(|a| matches!(a, Action::Subscribe(_))).count();
  if late {
    rep.classes.push("subscribe-after->=32-items".into());
  }
  if observers >= 10 {
    rep.classes.push("observers>=10".into());
  }
  rep.nontrivial = rep.nontrivial && (late || observers >= 10);
  rep
}

pub fn properties() -> Vec<Property> {
  vec![Property {
    id: "C10",
    rule: "cases = call histories of length <= 12 (thorough 20) over {subscribe_i, unsubscribe_i, next(v), error, complete} with 3 observers and 3 values on Subject / BehaviorSubject / ReplaySubject / AsyncSubject, observers attached directly or through map; oracle = per-observer traces and the registered-observer count after every call equal the reference state machine; non-trivial = a subscribe after a next, an unsubscribe followed by a next, or any call after a terminal; large: histories of up to 160 calls with 3 observers (reactions at callback positions up to 70) or up to 120 calls with 40 observers, non-trivial = additionally a subscribe after >= 32 items or >= 10 observers",
    assumptions: vec![
      "after a terminal only calls whose outcome the property fixes are generated (Subject: everything; Behavior/Replay: subscribe, unsubscribe, next - ignored, the stored terminal stays what a new subscriber gets; Async: unsubscribe)",
      "observer count read through an accessor appended to the generated copy (verif_observer_count)",
    ],
    subs: vec![
      mk_sub("histories", (2500, 50_000), c10_strategy, c10_check),
      mk_sub("large", (200, 4_000), c10_large_strategy, c10_large_check),
    ],
  }]
}
