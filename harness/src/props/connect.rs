//! C13: publish / ref_count / replay against the reference state machine.

use super::diff::{diff, DiffOpts};
use super::seq_inv::{render, SeqCase};
use super::*;
use crate::ast::*;
use crate::gen;
use proptest::prelude::*;

#[derive(Clone, Debug)]
enum COp {
  Sub(usize),
  Unsub(usize),
  Connect,
  Disconnect,
  Emit(i64),
  Complete,
  Error,
}

fn cop() -> BoxedStrategy<COp> {
  prop_oneof![
    4 => (0usize..3).prop_map(COp::Sub),
    3 => (0usize..3).prop_map(COp::Unsub),
    2 => Just(COp::Connect),
    1 => Just(COp::Disconnect),
    5 => (0i64..4).prop_map(COp::Emit),
    1 => Just(COp::Complete),
    1 => Just(COp::Error),
  ]
  .boxed()
}

fn c13_strategy(ctx: &Ctx) -> BoxedStrategy<SeqCase> {
  let max = ctx.tier.pick(12, 20);
  let kinds = prop::sample::select(vec![ConnKind::Publish, ConnKind::RefCount, ConnKind::Replay]);
  // source: 0 = hot, 1 = cold synchronous, 2 = per-subscription cold
  let take = prop::option::weighted(0.3, 1usize..=2);
  // observer 0 subscribes observer 2 from inside its n-th next callback: with a cold source
  // that is in the middle of the first connection
  let nested = prop::option::weighted(0.25, 0usize..3);
  (kinds, 0u8..=2, gen::script_wf(4, 1), gen::script_wf(3, 1), prop::collection::vec(cop(), 1..=max), any::<bool>(), take, 0u64..4, nested)
    .prop_map(|(kind, src, s1, s2, ops, via_map, take, hash_seed, nested)| {
      let hot = src == 0;
      let mut root = match src {
        0 => Node::Src(0, Src::Hot(0)),
        1 => Node::Src(0, Src::Cold { script: s1.clone(), polite: true }),
        _ => Node::Src(0, Src::PerSub { scripts: vec![s1.clone(), s2.clone()], polite: true }),
      };
      if via_map {
        root = Node::Un(Op::Map(crate::val::MapF::Add(0)), Box::new(root));
      }
      root.renumber();
      let cold_terminates = s1.last().map_or(false, |e| e.is_terminal());
      // ref_count over a cold source connects again whenever a first subscriber arrives:
      // does the n-th connection's script end by itself?
      let nth_terminates = |n: usize| match src {
        1 => s1.last().map_or(false, |e| e.is_terminal()),
        _ => (if n == 0 { &s1 } else { &s2 }).last().map_or(false, |e| e.is_terminal()),
      };
      let mut connections = 0usize;
      let mut actions = Vec::new();
      let mut subscribed = [false; 3];
      let mut live = [false; 3];
      let mut connected = false;
      let mut src_done = false;
      let mut ever_connected = false;
      for op in ops {
        match op {
          COp::Sub(k) if kind == ConnKind::RefCount && !hot => {
            // "subscribes the source when its first subscriber arrives": also when the
            // previous connection has ended (by its own terminal or because everybody left)
            if !subscribed[k] {
              subscribed[k] = true;
              actions.push(Action::Subscribe(k));
              if live.iter().any(|l| *l) {
                live[k] = true;
              } else {
                ever_connected = true;
                live[k] = !nth_terminates(connections);
                connections += 1;
              }
            }
          }
          COp::Sub(k) if kind == ConnKind::Publish && !hot => {
            // publish over a cold source: every connect() is a source subscription of its own
            // (it plays the n-th script inside connect), subscribers may come at any time and
            // see what the connections made after their arrival emit
            if !subscribed[k] {
              subscribed[k] = true;
              actions.push(Action::Subscribe(k));
            }
          }
          COp::Sub(k) => {
            // what a (re-)connection to a finished hot source / of a replay should do is not fixed
            let allowed = !subscribed[k]
              && match kind {
                ConnKind::Replay => hot || !ever_connected || src_done,
                // (a new first subscriber after the hot source's terminal: ref_count subscribes
                // the source again - "when its first subscriber arrives" - and the finished
                // harness source has nothing to say to it)
                ConnKind::RefCount => hot || (!src_done && !ever_connected),
                ConnKind::Publish => !src_done,
              };
            if allowed {
              subscribed[k] = true;
              live[k] = true;
              actions.push(Action::Subscribe(k));
              if kind != ConnKind::Publish && !ever_connected {
                ever_connected = true;
                if !hot && cold_terminates {
                  src_done = true;
                  live = [false; 3];
                }
              }
            }
          }
          COp::Unsub(k) => {
            if subscribed[k] {
              // replay over a cold source that has not finished: keep the count above zero
              let others = (0..3).filter(|j| *j != k && live[*j]).count();
              let keep = kind == ConnKind::Replay && !hot && !src_done && others == 0;
              if !keep {
                live[k] = false;
                actions.push(Action::Unsub(k));
              }
            }
          }
          COp::Connect if kind == ConnKind::Publish && !hot => {
            if !connected {
              actions.push(Action::Connect);
              ever_connected = true;
              connected = !nth_terminates(connections);
              connections += 1;
            }
          }
          COp::Connect => {
            if kind == ConnKind::Publish && !connected && !src_done && (hot || !ever_connected) {
              connected = true;
              ever_connected = true;
              actions.push(Action::Connect);
              if !hot && cold_terminates {
                src_done = true;
                connected = false;
              }
            }
          }
          COp::Disconnect => {
            if kind == ConnKind::Publish && connected {
              connected = false;
              actions.push(Action::Disconnect);
            }
          }
          COp::Emit(v) => {
            if hot && !src_done {
              actions.push(Action::Emit(0, Ev::N(v)));
            }
          }
          COp::Complete | COp::Error => {
            if hot && !src_done {
              src_done = true;
              live = [false; 3];
              actions.push(Action::Emit(0, if matches!(op, COp::Complete) { Ev::C } else { Ev::E(2) }));
            }
          }
        }
      }
      // replay over a cold source with subscribers that end by themselves (take): only the
      // first subscription is kept - it may leave while the source is still being subscribed,
      // which must stop the source; what a later re-connection replays is not fixed
      let replay_cold_take = kind == ConnKind::Replay && !hot && take.is_some() && hash_seed % 2 == 0;
      // (a source that terminates by itself runs to its end inside that first connect
      // whatever the subscriber does: the history is complete then, and later subscribers -
      // kept in that case - are handed all of it)
      if replay_cold_take && !cold_terminates {
        if let Some(i) = actions.iter().position(|a| matches!(a, Action::Subscribe(_))) {
          actions.truncate(i + 1);
        }
      }
      // the take(n) only on the subscriber that comes first, the others want everything
      // (replay: a first subscriber that leaves early must not shorten what later ones get)
      let first_sub = actions.iter().find_map(|a| if let Action::Subscribe(k) = a { Some(*k) } else { None });
      let take_only = if hash_seed >= 2 { first_sub } else { None };
      let uses_2 = actions.iter().any(|a| matches!(a, Action::Subscribe(2) | Action::Unsub(2)));
      SeqCase {
        case: Case {
          root,
          hots: if hot { vec![HotKind::Harness] } else { vec![] },
          hot_illformed: false,
          conn: Some(kind.clone()),
          // subscribers that end by themselves (take) - otherwise not for replay over cold
          // sources, whose subscriber count must stay above zero until the source finished
          conn_take: if kind == ConnKind::Replay && !hot && !replay_cold_take { None } else { take },
          conn_take_only: take_only,
          recorders: vec![
            match nested {
              // (observer 2 then never appears in the generated calls: its outcome would
              // depend on bookkeeping this generator does not track)
              Some(at) if kind != ConnKind::Publish && !uses_2 && !hot && take.is_none() => {
                vec![Reaction { at, what: React::Subscribe(2) }]
              }
              _ => vec![],
            },
            vec![],
            vec![],
          ],
          actions,
        },
        hash_seed,
      }
    })
    .boxed()
}

fn c13_check(_ctx: &Ctx, c: &SeqCase) -> Report {
  let out = diff(c, DiffOpts::default());
  let mut rep = out.rep;
  rep.classes.push(format!("kind:{:?}", c.case.conn.as_ref().unwrap()));
  let hot = !c.case.hots.is_empty();
  rep.classes.push(if hot { "source:hot".into() } else { "source:cold-synchronous".into() });
  if c.case.conn_take.is_some() {
    rep.classes.push(if c.case.conn_take_only.is_some() { "take:first-subscriber-only".into() } else { "take:every-subscriber".into() });
  }
  // non-trivial: >= 2 subscribers with different join times, or a resubscribe after the
  // count dropped to zero, or a synchronous source
  let mut subs_seen = 0;
  let mut emitted_between = false;
  let mut live = 0i32;
  let mut dropped_to_zero = false;
  let mut resub_after_zero = false;
  for a in &c.case.actions {
    match a {
      Action::Subscribe(_) => {
        if subs_seen >= 1 && emitted_between {
          rep.classes.push("join-mid-stream".into());
        }
        if dropped_to_zero {
          resub_after_zero = true;
        }
        subs_seen += 1;
        live += 1;
      }
      Action::Unsub(_) => {
        live -= 1;
        if live == 0 {
          dropped_to_zero = true;
        }
      }
      Action::Emit(_, Ev::N(_)) => emitted_between = true,
      _ => {}
    }
  }
  if resub_after_zero {
    rep.classes.push("resubscribe-after-count-zero".into());
  }
  rep.classes.sort();
  rep.classes.dedup();
  rep.nontrivial = out.real.is_some() && (rep.classes.iter().any(|x| x == "join-mid-stream") || resub_after_zero || (!hot && subs_seen >= 1));
  if rep.fail.is_some() {
    return rep;
  }
  if let (Some(r), Some(m)) = (&out.real, &out.model) {
    // number of source subscriptions ever made
    if r.log.sub_counts != m.sub_counts {
      rep.fail = Some(format!(
        "the source was subscribed {:?} times (source id, count), reference {:?} | {}",
        r.log.sub_counts,
        m.sub_counts,
        render(c, r)
      ));
      return rep;
    }
    // liveness of every source subscription at the end (after the sentinel round)
    for mp in &m.probes {
      if let Some(rp) = r.log.probes.iter().find(|p| p.sid == mp.sid && p.sub_no == mp.sub_no) {
        if rp.final_sub != mp.alive_end {
          rep.fail = Some(format!(
            "source subscription {} is {} at the end, reference: {} | {}",
            mp.sub_no,
            if rp.final_sub { "still subscribed" } else { "unsubscribed" },
            if mp.alive_end { "still subscribed" } else { "unsubscribed" },
            render(c, r)
          ));
          return rep;
        }
      }
    }
    // C05 for the Subscription that connect() returned: subscribed exactly as long as the
    // source subscription it stands for (the last one made) is
    if let (Some(ConnKind::Publish), Some(reported)) = (c.case.conn.as_ref(), r.log.conn_is_subscribed) {
      if let Some(last) = r.log.probes.iter().max_by_key(|p| p.sub_no) {
        if reported != last.final_sub {
          rep.fail = Some(format!(
            "the Subscription returned by connect() reports is_subscribed()=={} although the source subscription it stands for is {} | {}",
            reported,
            if last.final_sub { "still alive" } else { "over" },
            render(c, r)
          ));
          return rep;
        }
      }
    }
    let alive = r.log.probes.iter().filter(|p| p.final_sub).count();
    if alive > 1 {
      rep.fail = Some(format!("{} source subscriptions are alive at the same time | {}", alive, render(c, r)));
    }
  }
  rep
}

pub fn properties() -> Vec<Property> {
  vec![Property {
    id: "C13",
    rule: "cases = call histories of length <= 12 (thorough 20) over {subscribe_i, unsubscribe_i, connect, disconnect, source emits v, source completes / errors} with 3 subscribers on publish / ref_count / replay over a hot source, a cold synchronous source or a per-subscription cold source (directly or through map; subscribers optionally through take(n), all of them or the first one only; publish over cold sources: connect again once the previous connection is over, subscribers at any time); oracle = per-subscriber traces, number of source subscriptions ever made, liveness of every source subscription at the end and at most one alive, all equal to the reference state machine; the Subscription returned by connect() reports is_subscribed() exactly while its source subscription is alive; non-trivial = a subscriber joins mid-stream, or a resubscribe after the count dropped to zero, or a synchronous source",
    assumptions: vec![
      "after the source's own terminal only unsubscribe (replay: also late subscribe; ref_count: also a new first subscriber, for whom the source is subscribed again) is generated; replay over a cold source keeps its subscriber count above zero until the source finished (re-running a cold source into the same history is unspecified)",
    ],
    subs: vec![mk_sub("histories", (2500, 50_000), c13_strategy, c13_check)],
  }]
}
