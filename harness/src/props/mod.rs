//! Property checks. Each property is a list of sub-checks (name, strategy, oracle).

use crate::engine::*;
use proptest::strategy::BoxedStrategy;
use serde::{de::DeserializeOwned, Serialize};
use std::collections::BTreeSet;
use std::sync::Arc;

pub mod conc;
pub mod connect;
pub mod diff;
pub mod hang;
pub mod sched;
pub mod seq_inv;
pub mod subjects;
pub mod timed;

/// A panic raised inside the instrumented copy of the crate (not in harness code): for the
/// checks that compare what was delivered with a defined output this is a violation - the
/// output was not produced. The model-free invariant checks only class such runs as aborted.
pub fn crate_panic(o: &arx_rt::Outcome) -> Option<String> {
  if o.kind != arx_rt::Kind::Panic {
    return None;
  }
  let inside: Vec<&String> = o.panics.iter().filter(|p| p.contains("flat.rs")).collect();
  if inside.is_empty() {
    None
  } else {
    Some(format!("the crate panicked instead of delivering the defined output: {}", inside.iter().map(|s| s.as_str()).collect::<Vec<_>>().join("; ")))
  }
}

#[derive(Clone)]
pub struct Ctx {
  pub tier: Tier,
  pub seed: u64,
  pub root: String,
  /// exclusion switches of open known findings whose probe still fails
  pub exclusions: Arc<BTreeSet<String>>,
  pub shards: u64,
}

impl Ctx {
  pub fn excl(&self, name: &str) -> bool {
    self.exclusions.contains(name)
  }
}

pub struct Sub {
  pub name: &'static str,
  pub run: Box<dyn Fn(&Ctx) -> SubResult + Send + Sync>,
  pub replay: Box<dyn Fn(&Ctx, &serde_json::Value) -> Result<Report, String> + Send + Sync>,
}

/// `cases` = (quick, thorough) number of cases per shard
pub fn mk_sub<C, S, F>(name: &'static str, cases: (u32, u32), strat: S, check: F) -> Sub
where
  C: std::fmt::Debug + Clone + Serialize + DeserializeOwned + Send + 'static,
  S: Fn(&Ctx) -> BoxedStrategy<C> + Send + Sync + 'static,
  F: Fn(&Ctx, &C) -> Report + Send + Sync + 'static,
{
  let check = Arc::new(check);
  let c2 = check.clone();
  Sub {
    name,
    run: Box::new(move |ctx: &Ctx| {
      // the per-sub-check numbers were sized when a case cost ~1 ms; the runtime got two
      // orders of magnitude faster since (main thread on the caller, OS thread pool)
      let scale: u32 = std::env::var("VERIF_SCALE").ok().and_then(|s| s.parse().ok()).unwrap_or(10);
      let n = ctx.tier.pick(cases.0, cases.1).saturating_mul(scale);
      let ctx2 = ctx.clone();
      let ctx3 = ctx.clone();
      let check = check.clone();
      let strat = &strat;
      run_sub(name, ctx.seed, ctx.shards, n, move || strat(&ctx2), move |c: &C| check(&ctx3, c))
    }),
    replay: Box::new(move |ctx: &Ctx, v: &serde_json::Value| {
      let c: C = from_json(v)?;
      Ok(c2(ctx, &c))
    }),
  }
}

pub struct Property {
  pub id: &'static str,
  pub rule: &'static str,
  pub assumptions: Vec<&'static str>,
  pub subs: Vec<Sub>,
}

pub fn all() -> Vec<Property> {
  let mut v = Vec::new();
  v.extend(seq_inv::properties());
  v.extend(diff::properties());
  v.extend(subjects::properties());
  v.extend(conc::properties());
  v.extend(sched::properties());
  v.extend(timed::properties());
  v.extend(hang::properties());
  v.extend(connect::properties());
  v
}
