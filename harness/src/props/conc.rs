//! Concurrent properties on generic scenarios (harness threads x actions over one pipeline):
//! C05 (cross-thread part), C09, C11, C12, C19.

use super::*;
use crate::ast::*;
use crate::engine::SchedJson;
use crate::gen;
use crate::real::*;
use crate::val::*;
use proptest::prelude::*;
use serde::{Deserialize, Serialize};
use std::collections::HashMap;

#[derive(Clone, Debug, Serialize, Deserialize)]
pub struct ConcCase {
  pub case: Case,
  pub threads: Vec<Vec<Action>>,
  pub sched: SchedJson,
}

pub fn run_cc(c: &ConcCase, drain_ms: u64) -> RunResult {
  // (fixed budgets for the ordinary small cases, growing with the size of the long ones)
  let size = super::seq_inv::case_size(&c.case) + c.threads.iter().map(|t| t.len() as u64).sum::<u64>();
  let (max_steps, fuel) = if size <= 40 { (60_000, 100_000) } else { (60_000 + 4_000 * size, 100_000 + 4_000 * size as i64) };
  let cfg = arx_rt::Config { schedule: c.sched.to_schedule(), max_steps, fuel };
  let opts = RunOpts { settle: true, final_wait_ms: 10_000, drain_ms, sentinel: false };
  run_conc(&c.case, &c.threads, cfg, opts)
}

pub fn render_cc(c: &ConcCase, r: &RunResult) -> String {
  let th: Vec<String> = c
    .threads
    .iter()
    .enumerate()
    .map(|(i, t)| {
      let case = Case { root: Node::Src(0, Src::Empty), hots: vec![], hot_illformed: false, conn: None, conn_take: None, conn_take_only: None, recorders: vec![], actions: t.clone() };
      let s = case.show();
      format!("T{}[{}]", i + 1, s.split(" | ").nth(2).unwrap_or("").trim())
    })
    .collect();
  let traces: Vec<String> = (0..r.log.recs.len()).map(|k| format!("r{}={}", k, show_trace(&r.trace(k)))).collect();
  format!(
    "{} || {} || sched={{ov:{:?},walk:{:?},pct:{:?},spurious:{},hash:{}}} => {} [{}; switches={}]",
    c.case.show(),
    th.join(" "),
    c.sched.overrides,
    c.sched.walk,
    c.sched.pct,
    c.sched.spurious,
    c.sched.hash_seed,
    traces.join(" "),
    r.outcome.describe(),
    r.outcome.switches
  )
}

pub fn sched_strategy() -> BoxedStrategy<SchedJson> {
  gen::schedule().prop_map(|s| SchedJson::from(&s)).boxed()
}

fn hung(r: &RunResult) -> Option<String> {
  use arx_rt::Kind::*;
  match r.outcome.kind {
    Done | Quiescent => None,
    ref k => Some(format!("{:?}", k)),
  }
}

/// records in delivery order (by start stamp)
fn ordered(evs: &[RecEv]) -> Vec<RecEv> {
  let mut v = evs.to_vec();
  v.sort_by_key(|e| e.start);
  v
}

fn items_of(evs: &[RecEv]) -> Vec<P> {
  evs.iter().filter_map(|e| if let Rk::N(p) = &e.k { Some(p.clone()) } else { None }).collect()
}

fn script_items(s: &[Ev]) -> Vec<i64> {
  s.iter().filter_map(|e| if let Ev::N(v) = e { Some(*v) } else { None }).collect()
}

fn unique_script(thread: usize, len: usize, ending: Option<Ev>) -> Vec<Ev> {
  let mut s: Vec<Ev> = (0..len).map(|j| Ev::N((thread as i64 + 1) * 100 + j as i64)).collect();
  if let Some(e) = ending {
    s.push(e);
  }
  s
}

fn preempted(r: &RunResult) -> bool {
  r.outcome.switches >= 4
}

// ---------------------------------------------------------------------------------------
// C11

#[derive(Clone, Debug, Serialize, Deserialize)]
pub struct C11Case {
  pub cc: ConcCase,
  /// merge | zip | amb | concat | flat_map
  pub shape: String,
  /// scripts per input (items only; every input completes)
  pub scripts: Vec<Vec<i64>>,
  pub take: Option<usize>,
  /// an aggregate downstream of merge / concat / flat_map: count | sum | reduce | max | group_by | scan | buffer
  #[serde(default)]
  pub agg: Option<String>,
}

pub fn c11_strategy(_ctx: &Ctx) -> BoxedStrategy<C11Case> {
  let shape = prop::sample::select(vec!["merge", "zip", "amb", "concat", "flat_map", "merge_cold", "zip_cold"]);
  let agg = prop::option::weighted(0.4, prop::sample::select(vec!["count", "sum", "reduce", "max", "group_by", "scan", "buffer"]));
  (shape, 2usize..=3, prop::collection::vec(1usize..=4, 3), prop::option::weighted(0.4, 1usize..=4), sched_strategy(), agg)
    .prop_map(|(shape, k, lens, take, sched, agg)| {
      let scripts: Vec<Vec<Ev>> = (0..k).map(|i| unique_script(i, lens[i], Some(Ev::C))).collect();
      let items: Vec<Vec<i64>> = scripts.iter().map(|s| script_items(s)).collect();
      let hot = |i: usize| Node::Src(0, Src::Hot(i));
      let cold_on_thread = |s: &Vec<Ev>| {
        Node::Un(Op::SubscribeOnNew, Box::new(Node::Src(0, Src::Cold { script: s.clone(), polite: false })))
      };
      let (mut root, threads, hots, out_items): (Node, Vec<Vec<Action>>, Vec<HotKind>, Vec<Vec<i64>>) = match shape {
        "merge" | "zip" | "amb" => {
          let comb = match shape {
            "merge" => Comb::Merge,
            "zip" => Comb::Zip,
            _ => Comb::Amb,
          };
          let root = Node::Nary(comb, (0..k).map(hot).collect());
          let threads = scripts.iter().enumerate().map(|(i, s)| s.iter().map(|e| Action::Emit(i, e.clone())).collect()).collect();
          (root, threads, vec![HotKind::Harness; k], items.clone())
        }
        "merge_cold" | "zip_cold" | "concat" => {
          let comb = match shape {
            "merge_cold" => Comb::Merge,
            "zip_cold" => Comb::Zip,
            _ => Comb::Concat,
          };
          let root = Node::Nary(comb, scripts.iter().map(cold_on_thread).collect());
          (root, vec![], vec![], items.clone())
        }
        _ => {
          // flat_map: the outer source (hot0, driven by a harness thread) emits indices;
          // every inner pipeline plays its script on its own scheduler thread
          let outer: Vec<Ev> = (0..k).map(|i| Ev::N(i as i64)).chain(std::iter::once(Ev::C)).collect();
          let root = Node::FlatMap(Box::new(hot(0)), scripts.iter().map(cold_on_thread).collect());
          let threads = vec![outer.iter().map(|e| Action::Emit(0, e.clone())).collect()];
          (root, threads, vec![HotKind::Harness], items.clone())
        }
      };
      if let Some(n) = take {
        root = Node::Un(Op::Take(n), Box::new(root));
      }
      // every item comes out of merge / concat / flat_map (this property), so an aggregate
      // over their output is the aggregate of all inputs' items (C02's definitions)
      let agg = match (take, shape.trim_end_matches("_cold")) {
        (None, "merge") | (None, "concat") | (None, "flat_map") => agg.map(|a| a.to_string()),
        _ => None,
      };
      if let Some(a) = &agg {
        let op = match a.as_str() {
          "count" => Op::Count,
          "sum" => Op::Sum,
          "reduce" => Op::Reduce(Fold::Add),
          // group_by(x mod 2), the groups flattened again: nothing lost, one group per key
          "group_by" => Op::GroupBy(2),
          // running totals: every item enters the accumulator exactly once
          "scan" => Op::Scan(Fold::Add),
          // buffers of two: every item in exactly one buffer
          "buffer" => Op::Buffer(2),
          _ => Op::Max,
        };
        root = Node::Un(op, Box::new(root));
      }
      root.renumber();
      // one more thread that only reads Subscription::is_subscribed() a few times (as the
      // crate's own tests do while they wait): it must not disturb anything
      let mut threads = threads;
      if lens[2] % 2 == 0 {
        threads.push(vec![Action::IsSubscribed(0); 1 + lens[2]]);
      }
      let case = Case { root, hots, hot_illformed: false, conn: None, conn_take: None, conn_take_only: None, recorders: vec![vec![]], actions: vec![Action::Subscribe(0)] };
      C11Case { cc: ConcCase { case, threads, sched }, shape: shape.to_string(), scripts: out_items, take, agg }
    })
    .boxed()
}

fn multiset(v: &[i64]) -> HashMap<i64, usize> {
  let mut m = HashMap::new();
  for x in v {
    *m.entry(*x).or_insert(0) += 1;
  }
  m
}

fn c11_check(_ctx: &Ctx, c: &C11Case) -> Report {
  let r = run_cc(&c.cc, 2_000);
  let mut rep = Report::ok();
  rep.classes.push(format!("shape:{}", c.shape));
  if c.take.is_some() {
    rep.classes.push("with-take".into());
  }
  rep.sample = Some(render_cc(&c.cc, &r));
  if let Some(k) = hung(&r) {
    if let Some(p) = crate_panic(&r.outcome) {
      rep.fail = Some(format!("{} | {}", p, render_cc(&c.cc, &r)));
      return rep;
    }
    rep.classes.push(format!("aborted:{}", k));
    return rep;
  }
  rep.nontrivial = preempted(&r);
  let evs = ordered(&r.log.recs[0]);
  let fail = |m: String| Some(format!("{} | {}", m, render_cc(&c.cc, &r)));
  let completes = evs.iter().filter(|e| e.k == Rk::C).count();
  let errors = evs.iter().filter(|e| matches!(e.k, Rk::E(_))).count();
  if completes > 1 || errors > 1 {
    rep.fail = fail(format!("{} complete and {} error notifications", completes, errors));
    return rep;
  }
  if errors > 0 {
    rep.fail = fail("an error although no input fails".into());
    return rep;
  }
  let got: Vec<P> = items_of(&evs);
  let shape = c.shape.trim_end_matches("_cold");
  if let Some(n) = c.take {
    if got.len() > n {
      rep.fail = fail(format!("take({}) delivered {} items", n, got.len()));
      return rep;
    }
    // with a downstream take only the bounds the statement gives are asserted: at most n
    // items, at most one complete (an item counted by take but overtaken by the completion
    // on another thread may be dropped: the statement does not forbid that)
    if got.len() < n && completes == 1 {
      rep.classes.push("take-completed-with-fewer-items(tolerated)".into());
    }
    return rep;
  }
  if completes != 1 {
    rep.fail = fail(format!("{} complete notifications (every input completed)", completes));
    return rep;
  }
  if evs.last().map(|e| e.k.clone()) != Some(Rk::C) {
    rep.fail = fail("complete is not the last notification".into());
    return rep;
  }
  if c.agg.as_deref() == Some("group_by") {
    rep.classes.push("aggregate:group_by".into());
    let all: Vec<i64> = c.scripts.iter().flatten().copied().collect();
    let pairs: Vec<(i64, i64)> = got
      .iter()
      .map(|p| match p {
        P::L(v) if v.len() == 2 => (v[0].as_i64(), v[1].as_i64()),
        other => (-1, other.as_i64()),
      })
      .collect();
    let flat: Vec<i64> = pairs.iter().map(|x| x.1).collect();
    if multiset(&flat) != multiset(&all) {
      rep.fail = fail(format!("group_by over all inputs' items {:?} delivered {:?}", all, flat));
      return rep;
    }
    let mut group_of_key: HashMap<i64, i64> = HashMap::new();
    for (g, x) in &pairs {
      let key = x.rem_euclid(2);
      if *group_of_key.entry(key).or_insert(*g) != *g {
        rep.fail = fail(format!("items of key {} arrived through two different groups: {:?}", key, pairs));
        return rep;
      }
    }
    return rep;
  }
  if c.agg.as_deref() == Some("scan") {
    rep.classes.push("aggregate:scan".into());
    let all: Vec<i64> = c.scripts.iter().flatten().copied().collect();
    let flat: Vec<i64> = got.iter().map(|p| p.as_i64()).collect();
    // (all items are positive: the largest running total is the last one computed, in
    // whatever order two threads hand their totals on)
    let total: i64 = all.iter().sum();
    if flat.len() != all.len() || flat.iter().copied().max().unwrap_or(0) != total {
      rep.fail = fail(format!("scan(+) over all inputs' items {:?} delivered the running totals {:?}: expected {} of them, the largest {}", all, flat, all.len(), total));
    }
    return rep;
  }
  if c.agg.as_deref() == Some("buffer") {
    rep.classes.push("aggregate:buffer".into());
    let all: Vec<i64> = c.scripts.iter().flatten().copied().collect();
    let bufs: Vec<Vec<i64>> = got
      .iter()
      .map(|p| match p {
        P::L(v) => v.iter().map(|x| x.as_i64()).collect(),
        other => vec![other.as_i64()],
      })
      .collect();
    let flat: Vec<i64> = bufs.iter().flatten().copied().collect();
    let sizes_ok = bufs.iter().enumerate().all(|(i, b)| b.len() == 2 || (i + 1 == bufs.len() && b.len() == 1));
    if multiset(&flat) != multiset(&all) || !sizes_ok {
      rep.fail = fail(format!("buffer_with_count(2) over all inputs' items {:?} delivered {:?}", all, bufs));
    }
    return rep;
  }
  if let Some(a) = &c.agg {
    rep.classes.push(format!("aggregate:{}", a));
    let all: Vec<i64> = c.scripts.iter().flatten().copied().collect();
    let expect = match a.as_str() {
      "count" => all.len() as i64,
      "sum" | "reduce" => all.iter().sum(),
      _ => all.iter().copied().max().unwrap_or(0),
    };
    let flat: Vec<i64> = got.iter().map(|p| p.as_i64()).collect();
    if flat != vec![expect] {
      rep.fail = fail(format!("{} over all inputs' items {:?} delivered {:?}, expected [{}]", a, all, flat, expect));
    }
    return rep;
  }
  match shape {
    "merge" | "concat" | "flat_map" => {
      let flat: Vec<i64> = got.iter().map(|p| p.as_i64()).collect();
      let all: Vec<i64> = c.scripts.iter().flatten().copied().collect();
      if multiset(&flat) != multiset(&all) {
        rep.fail = fail(format!("items not conserved: received {:?}, emitted {:?}", flat, all));
        return rep;
      }
      for s in &c.scripts {
        let sub: Vec<i64> = flat.iter().copied().filter(|x| s.contains(x)).collect();
        if sub != *s {
          rep.fail = fail(format!("order of one input not preserved: {:?} vs {:?}", sub, s));
          return rep;
        }
      }
      if shape == "concat" {
        let all_in_order: Vec<i64> = c.scripts.iter().flatten().copied().collect();
        if flat != all_in_order {
          rep.fail = fail(format!("concat did not play its inputs one after another: {:?}", flat));
        }
      }
    }
    "zip" => {
      let n = c.scripts.iter().map(|s| s.len()).min().unwrap_or(0);
      let expect: Vec<P> = (0..n).map(|i| P::L(c.scripts.iter().map(|s| P::I(s[i])).collect())).collect();
      let mut a: Vec<String> = got.iter().map(|p| p.show()).collect();
      let mut b: Vec<String> = expect.iter().map(|p| p.show()).collect();
      a.sort();
      b.sort();
      if a != b {
        rep.fail = fail(format!("zip tuples {:?}, expected {:?}", a, b));
      }
    }
    "amb" => {
      let flat: Vec<i64> = got.iter().map(|p| p.as_i64()).collect();
      if !c.scripts.iter().any(|s| *s == flat) {
        rep.fail = fail(format!("amb let through {:?}, which is not exactly one input's sequence", flat));
      }
    }
    _ => {}
  }
  rep
}

// ---------------------------------------------------------------------------------------
// C19

#[derive(Clone, Debug, Serialize, Deserialize)]
pub struct C19Case {
  pub cc: ConcCase,
  pub shape: String,
}

pub fn c19_strategy(_ctx: &Ctx) -> BoxedStrategy<C19Case> {
  let shape = prop::sample::select(vec![
    "merge", "zip", "amb", "flat_map", "take_until", "skip_until", "sample", "subject", "behavior", "replay", "async",
    "replay_late", "behavior_late",
  ]);
  // thread 0 ends with error (or fires the trigger), thread 1 emits items (+ own terminal)
  (shape, 0usize..=3, 1usize..=4, prop::sample::select(vec![0u8, 1, 2]), any::<bool>(), sched_strategy())
    .prop_map(|(shape, len0, len1, end1, third, sched)| {
      let hot = |i: usize| Node::Src(0, Src::Hot(i));
      let end1 = match end1 {
        0 => None,
        1 => Some(Ev::C),
        _ => Some(Ev::E(2)),
      };
      let t0 = unique_script(0, len0, Some(Ev::E(1)));
      let t1 = unique_script(1, len1, end1);
      let t2 = unique_script(2, 2, Some(Ev::C));
      let emit = |i: usize, s: &Vec<Ev>| -> Vec<Action> { s.iter().map(|e| Action::Emit(i, e.clone())).collect() };
      let (root, hots, mut threads): (Node, Vec<HotKind>, Vec<Vec<Action>>) = match shape {
        "merge" | "zip" | "amb" => {
          let comb = match shape {
            "merge" => Comb::Merge,
            "zip" => Comb::Zip,
            _ => Comb::Amb,
          };
          let n = if third { 3 } else { 2 };
          let mut th = vec![emit(0, &t0), emit(1, &t1)];
          if third {
            th.push(emit(2, &t2));
          }
          (Node::Nary(comb, (0..n).map(hot).collect()), vec![HotKind::Harness; n], th)
        }
        "flat_map" => {
          // outer hot0 emits 0 (inner = hot1) then fails; hot1 keeps emitting
          let mut outer = vec![Action::Emit(0, Ev::N(0))];
          outer.extend(emit(0, &t0));
          (Node::FlatMap(Box::new(hot(0)), vec![hot(1)]), vec![HotKind::Harness; 2], vec![outer, emit(1, &t1)])
        }
        "take_until" | "skip_until" | "sample" => {
          let g = match shape {
            "take_until" => Gate::TakeUntil,
            "skip_until" => Gate::SkipUntil,
            _ => Gate::Sample,
          };
          // hot0 = source (items, then error or complete), hot1 = trigger (items)
          let src_script = if third { unique_script(0, len0 + 1, Some(Ev::C)) } else { unique_script(0, len0 + 1, Some(Ev::E(1))) };
          let trig = unique_script(1, len1, None);
          (
            Node::Gate(g, Box::new(hot(0)), Box::new(hot(1))),
            vec![HotKind::Harness; 2],
            vec![emit(0, &src_script), emit(1, &trig)],
          )
        }
        "replay_late" | "behavior_late" => {
          // the subject already holds a history; the subscriber arrives on one thread
          // while another thread terminates the subject (and a third may push items)
          let kind = if shape == "replay_late" { HotKind::Replay } else { HotKind::Behavior(-1) };
          let term = if third { Ev::C } else { Ev::E(1) };
          let mut th = vec![vec![Action::Subscribe(0)], vec![Action::Emit(0, term)]];
          if len0 > 0 {
            th.push(emit(0, &unique_script(1, len0, None)));
          }
          (hot(0), vec![kind], th)
        }
        _ => {
          let kind = match shape {
            "subject" => HotKind::Subject,
            "behavior" => HotKind::Behavior(-1),
            "replay" => HotKind::Replay,
            _ => HotKind::Async,
          };
          // next and error/complete of one subject called from two threads
          let term = if third { Ev::C } else { Ev::E(1) };
          (hot(0), vec![kind], vec![vec![Action::Emit(0, term)], emit(0, &unique_script(1, len1, None))])
        }
      };
      let mut root = root;
      root.renumber();
      for t in threads.iter_mut() {
        if t.is_empty() {
          t.push(Action::Advance(0));
        }
      }
      // sometimes one more thread that only reads Subscription::is_subscribed()
      if len1 % 2 == 0 && len0 % 2 == 1 {
        threads.push(vec![Action::IsSubscribed(0); 1 + len1]);
      }
      let actions = if shape.ends_with("_late") {
        emit(0, &unique_script(2, len1, None))
      } else {
        vec![Action::Subscribe(0)]
      };
      let case = Case { root, hots, hot_illformed: false, conn: None, conn_take: None, conn_take_only: None, recorders: vec![vec![]], actions };
      C19Case { cc: ConcCase { case, threads, sched }, shape: shape.to_string() }
    })
    .boxed()
}

/// emission start stamp of the harness call that pushed item value `v` (unique values)
fn emit_call_of(r: &RunResult, v: i64) -> Option<&CallMark> {
  r.log.call_marks.iter().find(|m| matches!(&m.action, Action::Emit(_, Ev::N(x)) if *x == v))
}

fn c19_check(_ctx: &Ctx, c: &C19Case) -> Report {
  let r = run_cc(&c.cc, 2_000);
  let mut rep = Report::ok();
  rep.classes.push(format!("shape:{}", c.shape));
  rep.sample = Some(render_cc(&c.cc, &r));
  if let Some(k) = hung(&r) {
    rep.classes.push(format!("aborted:{}", k));
    return rep;
  }
  let evs = ordered(&r.log.recs[0]);
  let fail = |m: String| Some(format!("{} | {}", m, render_cc(&c.cc, &r)));
  let terms: Vec<&RecEv> = evs.iter().filter(|e| e.k.is_terminal()).collect();
  if terms.len() > 1 {
    rep.fail = fail(format!("{} terminal notifications", terms.len()));
    return rep;
  }
  if let Some(t) = terms.first() {
    // non-trivial: the terminal's delivery overlapped another thread's emission
    let overlapped = r.log.call_marks.iter().any(|m| m.tid != t.tid && m.call < t.end && m.ret > t.start);
    rep.nontrivial = overlapped;
    if overlapped {
      rep.classes.push("terminal-overlapped-an-emission".into());
    }
    for e in &evs {
      if e.start <= t.end {
        continue;
      }
      if c.shape.ends_with("_late") {
        // a subject hands its history to a new subscriber item by item on the subscribing
        // thread: the delivery of an item starts after the previous item's callback returned
        let prev_end = evs.iter().filter(|p| p.tid == e.tid && p.end <= e.start).map(|p| p.end).max();
        if let Some(pe) = prev_end {
          if pe > t.end {
            rep.fail = fail(format!(
              "{} delivered (start stamp {}) although the terminal callback had returned (stamp {}) before the previous callback on that thread did (stamp {}): its delivery started after the terminal",
              e.k.show(), e.start, t.end, pe
            ));
            return rep;
          }
        }
      }
      // delivered after the terminal callback returned: allowed only for an emission that
      // had started before
      let started_before = match &e.k {
        Rk::N(p) => {
          let vals: Vec<i64> = match p {
            P::L(v) => v.iter().map(|x| x.as_i64()).collect(),
            other => vec![other.as_i64()],
          };
          // the emission that *caused* this callback is the latest of the involved items
          vals.iter().filter_map(|v| emit_call_of(&r, *v)).map(|m| m.call).max().map_or(false, |call| call < t.end)
        }
        _ => false,
      };
      if !started_before {
        rep.fail = fail(format!(
          "{} delivered (start stamp {}) for an emission that started after the terminal callback had returned (stamp {})",
          e.k.show(),
          e.start,
          t.end
        ));
        return rep;
      }
      rep.classes.push("in-flight-delivery-after-terminal(tolerated)".into());
    }
  }
  rep
}

// ---------------------------------------------------------------------------------------
// C12

#[derive(Clone, Debug, Serialize, Deserialize)]
pub struct C12Case {
  pub cc: ConcCase,
  pub kind: String,
  /// the late subscriber (observer 1) is only judged by what the open known findings
  /// K01 / K02 leave standing (see c12_check)
  #[serde(default)]
  pub weak_late: bool,
  /// ReplaySubject only: one more thread calls complete() while the producers push. What a
  /// pushed item meets then (delivered, or dropped because the terminal came first) is the
  /// race's business; what must hold is judged in a branch of its own (see c12_check)
  #[serde(default)]
  pub with_terminal: bool,
}

pub fn c12_strategy(ctx: &Ctx) -> BoxedStrategy<C12Case> {
  let (late_behavior_ok, late_replay_ok) = (!ctx.excl("no_late_behavior_subscriber"), !ctx.excl("no_late_replay_subscriber"));
  let kinds = prop::sample::select(vec![HotKind::Subject, HotKind::Behavior(-1), HotKind::Replay]);
  (kinds, 1usize..=2, prop::collection::vec(1usize..=4, 2), any::<bool>(), any::<bool>(), 0usize..=4, sched_strategy())
    .prop_map(move |(kind, nprod, lens, late, leaver, pre, sched)| {
      // r0 stays throughout; r1 subscribes from its own thread (late joiner); r2 is
      // subscribed up front and unsubscribes from its own thread (leaver)
      let mut threads: Vec<Vec<Action>> = Vec::new();
      for p in 0..nprod {
        threads.push(unique_script(p, lens[p], None).iter().map(|e| Action::Emit(0, e.clone())).collect());
      }
      let mut pre_actions = vec![Action::Subscribe(0)];
      if leaver {
        pre_actions.push(Action::Subscribe(2));
        threads.push(vec![Action::Unsub(2)]);
      }
      // items pushed before anybody races (history for Replay / latest for Behavior)
      for j in 0..pre {
        pre_actions.push(Action::Emit(0, Ev::N(900 + j as i64)));
      }
      let late_ok = match kind {
        HotKind::Behavior(_) => late_behavior_ok,
        HotKind::Replay => late_replay_ok,
        _ => true,
      };
      // while a known finding about the late hand-over is open the late subscriber is still
      // generated, but judged by the weaker rules that the finding does not touch
      let weak_late = late && !late_ok;
      if late {
        threads.push(vec![Action::Subscribe(1)]);
      }
      // r3 arrives when everything is quiet again (50 ms of virtual time later): whatever the
      // races before it did to the stored history / latest value, it is judged by the full
      // rules - its subscribe overlaps no push
      if pre % 2 == 0 {
        threads.push(vec![Action::Advance(50), Action::Subscribe(3)]);
      }
      let with_terminal = kind == HotKind::Replay && pre % 2 == 0 && lens[0] % 2 == 0;
      if with_terminal {
        threads.push(vec![Action::Emit(0, Ev::C)]);
      }
      let mut root = Node::Src(0, Src::Hot(0));
      root.renumber();
      let case = Case {
        root,
        hots: vec![kind.clone()],
        hot_illformed: false, conn: None, conn_take: None, conn_take_only: None,
        recorders: vec![vec![], vec![], vec![], vec![]],
        actions: pre_actions,
      };
      C12Case { cc: ConcCase { case, threads, sched }, kind: format!("{:?}", kind), weak_late, with_terminal }
    })
    .boxed()
}

fn c12_check(_ctx: &Ctx, c: &C12Case) -> Report {
  let r = run_cc(&c.cc, 100);
  let mut rep = Report::ok();
  rep.classes.push(format!("kind:{}", c.kind.split('(').next().unwrap()));
  rep.sample = Some(render_cc(&c.cc, &r));
  if let Some(k) = hung(&r) {
    if let Some(p) = crate_panic(&r.outcome) {
      rep.fail = Some(format!("{} | {}", p, render_cc(&c.cc, &r)));
      return rep;
    }
    rep.classes.push(format!("aborted:{}", k));
    return rep;
  }
  let fail = |m: String| Some(format!("{} | {}", m, render_cc(&c.cc, &r)));
  // every push, in push order (= order of the producers' calls; pre-pushes first)
  let mut pushes: Vec<(u64, u64, i64, usize)> = r
    .log
    .call_marks
    .iter()
    .filter_map(|m| if let Action::Emit(_, Ev::N(v)) = &m.action { Some((m.call, m.ret, *v, m.thread)) } else { None })
    .collect();
  pushes.sort();
  let producers: Vec<usize> = {
    let mut v: Vec<usize> = pushes.iter().map(|p| p.3).collect();
    v.sort();
    v.dedup();
    v
  };
  let is_replay = c.kind.starts_with("Replay");
  let is_behavior = c.kind.starts_with("Behavior");
  if c.with_terminal {
    // complete() races the pushes. Whatever the race did, the stored history must not
    // contradict what live observers saw: every item that observer 0 (subscribed
    // throughout) received is part of what the subscriber that arrives when everything is
    // quiet again is replayed - each once, followed by the stored terminal.
    rep.classes.push("complete-races-the-pushes".into());
    let items = |k: usize| -> Vec<i64> { items_of(&ordered(&r.log.recs[k])).iter().map(|p| p.as_i64()).collect() };
    let terminals = |k: usize| ordered(&r.log.recs[k]).iter().filter(|e| e.k.is_terminal()).count();
    let (live, late) = (items(0), items(3));
    rep.nontrivial = !live.is_empty();
    if r.log.sub_marks.get(3).copied().flatten().is_some() {
      let mut seen = std::collections::BTreeSet::new();
      if late.iter().any(|v| !seen.insert(*v)) {
        rep.fail = fail(format!("the late subscriber was replayed an item twice: {:?}", late));
        return rep;
      }
      if let Some(missing) = live.iter().find(|v| !late.contains(v)) {
        rep.fail = fail(format!(
          "observer 0 received {} before the terminal, but the subscriber that arrived afterwards was replayed only {:?}",
          missing, late
        ));
        return rep;
      }
      if terminals(3) != 1 {
        rep.fail = fail(format!("the late subscriber received {} terminal notifications after the subject had completed", terminals(3)));
        return rep;
      }
    }
    return rep;
  }
  for k in 0..r.log.sub_marks.len().min(4) {
    let (sub_call, sub_ret) = match r.log.sub_marks[k] {
      Some(m) => m,
      None => continue,
    };
    let evs = ordered(&r.log.recs[k]);
    let got: Vec<i64> = items_of(&evs).iter().map(|p| p.as_i64()).collect();
    let unsub = r.log.unsub_marks[k].first().copied();
    if k == 3 {
      rep.classes.push("subscriber-after-everything-is-quiet".into());
    }
    if k == 1 && c.weak_late {
      // K01 / K02 open: a racing late subscriber may see a gap or a duplicate (Behavior) or
      // duplicates / reordering (Replay). What must still hold: only pushed values arrive;
      // Replay loses nothing; Behavior never goes back to an older value of one producer.
      rep.classes.push("late-subscriber(weak rules: known finding open)".into());
      rep.excluded = Some(if is_replay { "K02: late replay subscriber judged by weak rules".into() } else { "K01: late behavior subscriber judged by weak rules".into() });
      for v in &got {
        if *v != -1 && !pushes.iter().any(|p| p.2 == *v) {
          rep.fail = fail(format!("late observer received {} which nobody pushed: {:?}", v, got));
          return rep;
        }
      }
      if is_replay {
        for p in &pushes {
          if !got.contains(&p.2) {
            rep.fail = fail(format!("late replay observer never received {}: {:?}", p.2, got));
            return rep;
          }
        }
      }
      if is_behavior {
        for &pt in &producers {
          let mine: Vec<i64> = pushes.iter().filter(|p| p.3 == pt).map(|p| p.2).collect();
          let idx: Vec<usize> = got.iter().filter_map(|v| mine.iter().position(|m| m == v)).collect();
          if idx.windows(2).any(|w| w[1] < w[0]) {
            rep.fail = fail(format!("late behavior observer went back to an older value: {:?}", got));
            return rep;
          }
        }
      }
      continue;
    }
    // exactly-once
    let mut seen = std::collections::HashSet::new();
    for v in &got {
      if *v != -1 && !seen.insert(*v) {
        rep.fail = fail(format!("observer {} received {} twice: {:?}", k, v, got));
        return rep;
      }
    }
    // the subscribe / unsubscribe call overlapped a push?
    let overlapped = pushes.iter().any(|p| (p.0 < sub_ret && p.1 > sub_call) || unsub.map_or(false, |u| p.0 < u.1 && p.1 > u.0));
    if overlapped {
      rep.nontrivial = true;
      rep.classes.push("subscribe-or-unsubscribe-overlapped-a-push".into());
    }
    for &pt in &producers {
      let mine: Vec<&(u64, u64, i64, usize)> = pushes.iter().filter(|p| p.3 == pt).collect();
      let got_mine: Vec<i64> = got.iter().copied().filter(|v| mine.iter().any(|p| p.2 == *v)).collect();
      let all_mine: Vec<i64> = mine.iter().map(|p| p.2).collect();
      // order + gap-freeness: a contiguous run of the producer's items
      let pos = all_mine.iter().position(|v| Some(v) == got_mine.first());
      let contiguous = match pos {
        None => got_mine.is_empty(),
        Some(p) => all_mine[p..].starts_with(&got_mine),
      };
      if !contiguous {
        rep.fail = fail(format!("observer {}: items of one producer are not a gap-free run in order: got {:?} of {:?}", k, got_mine, all_mine));
        return rep;
      }
      // lower bound: everything pushed entirely inside the observer's subscribed interval
      for p in &mine {
        let after_sub = p.0 > sub_ret;
        let before_unsub = unsub.map_or(true, |u| p.1 < u.0);
        if after_sub && before_unsub && !got_mine.contains(&p.2) {
          rep.fail = fail(format!("observer {} lost item {} (pushed while it was subscribed): got {:?}", k, p.2, got));
          return rep;
        }
        // upper bound for leavers: nothing pushed after unsubscribe returned
        if unsub.map_or(false, |u| p.0 > u.1) && got_mine.contains(&p.2) {
          rep.fail = fail(format!("observer {} received {} pushed after its unsubscribe returned", k, p.2));
          return rep;
        }
      }
    }
    if is_replay && unsub.is_none() {
      // every item ever pushed, exactly once, in push order (for pushes that do not overlap
      // each other the order is fixed; overlapping pushes may appear in either order)
      let all: Vec<i64> = pushes.iter().map(|p| p.2).collect();
      let mut a = got.clone();
      let mut b = all.clone();
      a.sort();
      b.sort();
      if a != b {
        rep.fail = fail(format!("replay observer {} received {:?}, pushed {:?}", k, got, all));
        return rep;
      }
      for i in 0..pushes.len() {
        for j in 0..pushes.len() {
          if pushes[i].1 < pushes[j].0 {
            let (pi, pj) = (got.iter().position(|v| *v == pushes[i].2), got.iter().position(|v| *v == pushes[j].2));
            if let (Some(pi), Some(pj)) = (pi, pj) {
              if pi > pj {
                rep.fail = fail(format!("replay observer {} received {} before {} although it was pushed later", k, pushes[j].2, pushes[i].2));
                return rep;
              }
            }
          }
        }
      }
    }
    if is_behavior && unsub.is_none() {
      // a value v, then every value pushed after v
      if got.is_empty() {
        rep.fail = fail(format!("behavior observer {} received nothing", k));
        return rep;
      }
      let first = got[0];
      if first != -1 {
        let fp = pushes.iter().find(|p| p.2 == first).copied();
        if let Some(fp) = fp {
          for p in &pushes {
            if p.0 > fp.1 && !got.contains(&p.2) {
              rep.fail = fail(format!("behavior observer {} got {} first but then missed {} pushed later: {:?}", k, first, p.2, got));
              return rep;
            }
          }
        }
      } else {
        for p in &pushes {
          if p.0 > sub_ret && !got.contains(&p.2) {
            rep.fail = fail(format!("behavior observer {} missed {}: {:?}", k, p.2, got));
            return rep;
          }
        }
      }
    }
  }
  rep
}

// ---------------------------------------------------------------------------------------
// C05 cross-thread part, C09

#[derive(Clone, Debug, Serialize, Deserialize)]
pub struct C09Case {
  pub cc: ConcCase,
  pub script: Vec<Ev>,
  /// source script is played by a harness thread into hot0 (true) or synchronously by a cold source (false)
  pub hot: bool,
  pub has_unsub: bool,
  pub subscribe_on: bool,
}

const REENTRANT_ITEM: i64 = 900;

fn id_ops() -> BoxedStrategy<Op> {
  // operators whose output identifies the input item (values stay unique)
  prop_oneof![
    Just(Op::Map(MapF::Add(0))),
    Just(Op::Filter(Pred::True)),
    (0usize..=5).prop_map(Op::Take),
    (0usize..=2).prop_map(Op::Skip),
    Just(Op::Distinct),
  ]
  .boxed()
}

pub fn c09_strategy(_ctx: &Ctx, for_c05: bool) -> BoxedStrategy<C09Case> {
  let pre = prop::collection::vec(id_ops(), 0..=2);
  let post = prop::collection::vec(id_ops(), 0..=2);
  let sched_ops = prop_oneof![
    3 => Just(vec![Op::ObserveOnNew]),
    2 => Just(vec![Op::SubscribeOnNew]),
    1 => Just(vec![Op::ObserveOnNew, Op::ObserveOnNew]),
    1 => Just(vec![Op::SubscribeOnNew, Op::ObserveOnNew]),
    1 => Just(vec![Op::SubscribeOnNew, Op::SubscribeOnNew]),
    // an operator that ends the stream by itself between two workers: its completion is
    // posted to the second worker by a task of the first one, which it has just stopped
    1 => (1usize..=2).prop_map(|n| vec![Op::ObserveOnNew, Op::Take(n), Op::ObserveOnNew]),
    1 => (1usize..=2).prop_map(|n| vec![Op::SubscribeOnNew, Op::Take(n), Op::ObserveOnNew]),
  ];
  // C09 only: the subscriber's n-th callback (on the scheduler's thread) pushes one more item
  // into the hot source - an emission from the worker itself must be queued like any other
  let reentrant = prop::option::weighted(if for_c05 { 0.0001 } else { 0.25 }, 0usize..3);
  // the subscriber unsubscribes from inside its n-th callback - on the scheduler's own thread
  // when the pipeline ends in observe_on (the worker then aborts its own scheduler)
  let self_unsub = prop::option::weighted(0.15, 0usize..3);
  // (now and then a source long enough to fill whatever a scheduler may want to bound)
  let len = prop_oneof![10 => 0usize..=6, 1 => 34usize..=70];
  (pre, sched_ops, post, len, 0u8..=2, any::<bool>(), prop::option::weighted(if for_c05 { 0.97 } else { 0.35 }, 0u8..=3), sched_strategy(), reentrant, self_unsub)
    .prop_map(move |(pre, mid, post, len, ending, hot, unsub, sched, reentrant, self_unsub)| {
      let subscribe_on = mid.contains(&Op::SubscribeOnNew);
      let ends_early = mid.iter().any(|o| matches!(o, Op::Take(_)));
      let reentrant = if hot && !subscribe_on && !for_c05 && !ends_early { reentrant } else { None };
      let order_free = |op: &Op| matches!(op, Op::Map(_) | Op::Filter(_));
      let (pre, post): (Vec<Op>, Vec<Op>) = if reentrant.is_some() {
        (pre.into_iter().filter(order_free).collect(), post.into_iter().filter(order_free).collect())
      } else {
        (pre, post)
      };
      let ending = match ending {
        _ if reentrant.is_some() => None,
        0 => Some(Ev::C),
        1 => Some(Ev::E(1)),
        _ => None,
      };
      let script = unique_script(0, len, ending);
      // subscribe_on subscribes later, on the worker: what a hot source emits before that
      // is by definition not part of the subscription, so subscribe_on is paired with
      // synchronous (cold) sources only
      let hot = hot && !subscribe_on;
      let mut root = if hot {
        Node::Src(0, Src::Hot(0))
      } else {
        Node::Src(0, Src::Cold { script: script.clone(), polite: false })
      };
      for op in pre.into_iter().chain(mid.into_iter()).chain(post.into_iter()) {
        root = Node::Un(op, Box::new(root));
      }
      root.renumber();
      let mut threads: Vec<Vec<Action>> = Vec::new();
      if hot {
        threads.push(script.iter().map(|e| Action::Emit(0, e.clone())).collect());
      }
      if let Some(delay) = unsub {
        let mut t = vec![];
        for _ in 0..delay {
          t.push(Action::Advance(0));
        }
        t.push(Action::Unsub(0));
        if delay % 2 == 1 {
          t.push(Action::Unsub(0));
        }
        threads.push(t);
      }
      // C09 only: the same observable value is subscribed a second time (synchronous
      // sources; each subscription has its own scheduler and must receive everything)
      let self_unsub = if reentrant.is_none() { self_unsub } else { None };
      let second = !for_c05 && !hot && unsub.is_none() && reentrant.is_none() && self_unsub.is_none() && len % 3 == 0;
      let mut recorders = vec![match (reentrant, self_unsub) {
        (Some(at), _) => vec![Reaction { at, what: React::Emit(0, Ev::N(REENTRANT_ITEM)) }],
        (None, Some(at)) => vec![Reaction { at, what: React::UnsubSelf }],
        _ => vec![],
      }];
      let mut actions = vec![Action::Subscribe(0)];
      if second {
        recorders.push(vec![]);
        actions.push(Action::Subscribe(1));
      }
      let case = Case {
        root,
        hots: if hot { vec![HotKind::Harness] } else { vec![] },
        hot_illformed: false, conn: None, conn_take: None, conn_take_only: None,
        recorders,
        actions,
      };
      C09Case { cc: ConcCase { case, threads, sched }, script, hot, has_unsub: unsub.is_some() || self_unsub.is_some(), subscribe_on }
    })
    .boxed()
}

/// expected trace of the same pipeline without scheduler operators (reference interpreter)
fn c09_expected(c: &C09Case) -> Option<Vec<Rk>> {
  fn strip(n: &Node) -> Node {
    match n {
      Node::Un(Op::ObserveOnNew, x) | Node::Un(Op::SubscribeOnNew, x) => strip(x),
      Node::Un(op, x) => Node::Un(op.clone(), Box::new(strip(x))),
      other => other.clone(),
    }
  }
  let mut case = c.cc.case.clone();
  case.root = strip(&case.root);
  case.actions = vec![Action::Subscribe(0)];
  if c.hot {
    case.actions.extend(c.script.iter().map(|e| Action::Emit(0, e.clone())));
  }
  crate::model::run_model_opt(&case, crate::model::Conv::all()[0], false).ok().map(|m| m.traces[0].clone())
}

fn c09_check_impl(c: &C09Case, c05_only: bool) -> Report {
  let r = run_cc(&c.cc, 5_000);
  if std::env::var("ARXV_DEBUG_LOG").is_ok() {
    eprintln!("unsub_marks={:?}\nfired={:?} skipped={:?}\nsub_marks={:?}", r.log.unsub_marks, r.log.reactions_fired, r.log.reactions_skipped, r.log.sub_marks);
    for e in &r.log.recs[0] {
      eprintln!("  rec {:?} tid={} start={} end={}", e.k, e.tid, e.start, e.end);
    }
    for m in &r.log.call_marks {
      eprintln!("  call {:?} tid={} {}..{}", m.action, m.tid, m.call, m.ret);
    }
    eprintln!("spans={:?}", r.log.cb_spans);
  }
  let mut rep = Report::ok();
  rep.classes = super::seq_inv::op_classes(&c.cc.case);
  rep.classes.push(if c.hot { "source:emitter-thread".into() } else { "source:synchronous".into() });
  rep.sample = Some(render_cc(&c.cc, &r));
  if let Some(k) = hung(&r) {
    if let (Some(p), false) = (crate_panic(&r.outcome), c05_only) {
      rep.fail = Some(format!("{} | {}", p, render_cc(&c.cc, &r)));
      return rep;
    }
    rep.classes.push(format!("aborted:{}", k));
    return rep;
  }
  let fail = |m: String| Some(format!("{} | {}", m, render_cc(&c.cc, &r)));
  let evs = ordered(&r.log.recs[0]);
  rep.nontrivial = c.script.len() >= 2 && preempted(&r);
  // C05 (cross-thread): nothing for an emission that started after unsubscribe returned
  if let Some(&(ucall, uret)) = r.log.unsub_marks[0].first() {
    let overlapped = r.log.call_marks.iter().any(|m| matches!(m.action, Action::Emit(_, _)) && m.call < uret && m.ret > ucall)
      || evs.iter().any(|e| e.start < uret && e.end > ucall);
    if overlapped {
      rep.classes.push("unsubscribe-overlapped-an-emission-or-a-callback".into());
      if c05_only {
        rep.nontrivial = true;
      }
    }
    for e in &evs {
      if e.start <= uret {
        continue;
      }
      let started_before = match &e.k {
        Rk::N(p) => emit_call_of(&r, p.as_i64()).map_or(!c.hot, |m| m.call < uret),
        _ => {
          // terminal: the source's terminal call
          r.log
            .call_marks
            .iter()
            .find(|m| matches!(&m.action, Action::Emit(_, ev) if ev.is_terminal()))
            .map_or(!c.hot, |m| m.call < uret)
        }
      };
      // a synchronous (cold) source emits inside subscribe(): everything started before
      if !started_before {
        rep.fail = fail(format!(
          "{} delivered (start {}) for an emission that started after unsubscribe() had returned (stamp {})",
          e.k.show(),
          e.start,
          uret
        ));
        return rep;
      }
    }
  }
  if c05_only {
    return rep;
  }
  if c.cc.case.recorders.len() > 1 {
    rep.classes.push("second-subscription-of-the-same-observable".into());
  }
  for k in 0..c.cc.case.recorders.len() {
    let evs = ordered(&r.log.recs[k]);
    let got: Vec<Rk> = evs.iter().map(|e| e.k.clone()).collect();
    let fail = |m: String| Some(format!("recorder {}: {} | {}", k, m, render_cc(&c.cc, &r)));
    let reentrant = c.cc.case.recorders[0].iter().any(|x| matches!(x.what, React::Emit(_, _)));
    if c.cc.case.recorders[0].iter().any(|x| matches!(x.what, React::UnsubSelf)) {
      rep.classes.push("unsubscribe-from-inside-a-callback".into());
    }
    if reentrant {
      // the script's items in order, and the item pushed from the callback exactly once, at
      // whatever place the queue gave it
      rep.classes.push("emission-from-the-worker's-callback".into());
      let fired = !r.log.reactions_fired.is_empty();
      if fired {
        rep.classes.push("emission-from-the-worker's-callback:happened".into());
      }
      let own: Vec<Rk> = got.iter().filter(|k| !matches!(k, Rk::N(p) if p.as_i64() == REENTRANT_ITEM)).cloned().collect();
      let extra = got.len() - own.len();
      let exp_own: Vec<Rk> = c.script.iter().map(|e| match e {
        Ev::N(v) => Rk::N(crate::val::P::I(*v)),
        Ev::E(c) => Rk::E(*c),
        Ev::C => Rk::C,
      }).collect();
      let ok_own = if c.has_unsub { exp_own.starts_with(&own) } else { own == exp_own };
      if !ok_own {
        rep.fail = fail(format!("received {} of the source's {}", show_trace(&own), show_trace(&exp_own)));
        return rep;
      }
      if extra > 1 || (fired && !c.has_unsub && extra != 1) || (!fired && extra != 0) {
        rep.fail = fail(format!("the item pushed from inside the callback was delivered {} time(s) (pushed: {})", extra, fired));
        return rep;
      }
    }
    // C09: exactly the source's events, in order, terminal last (a prefix if unsubscribed)
    let expected = match c09_expected(c) {
      Some(e) if !reentrant => e,
      Some(_) => got.clone(),
      None => return rep,
    };
    if c.has_unsub {
      if !expected.starts_with(&got) {
        rep.fail = fail(format!("received {} which is not a prefix of {}", show_trace(&got), show_trace(&expected)));
        return rep;
      }
    } else if got != expected {
      rep.fail = fail(format!("received {} instead of {}", show_trace(&got), show_trace(&expected)));
      return rep;
    }
    // downstream of observe_on (or of subscribe_on over a synchronous source) all callbacks
    // run on one scheduler thread that is not the emitting thread; never two at once
    let has_observe_on = c.cc.case.root.has_op(&|n| matches!(n, Node::Un(Op::ObserveOnNew, _)));
    if has_observe_on || !c.hot {
      let tids: std::collections::BTreeSet<usize> = evs.iter().map(|e| e.tid).collect();
      if tids.len() > 1 {
        rep.fail = fail(format!("callbacks ran on {} different threads", tids.len()));
        return rep;
      }
      if let Some(e) = evs.iter().find(|e| !e.lib_thread) {
        rep.fail = fail(format!("{} was delivered on a harness thread, not on the scheduler's thread", e.k.show()));
        return rep;
      }
    }
    for w in evs.windows(2) {
      if w[1].start < w[0].end {
        rep.fail = fail("two callbacks overlapped".into());
        return rep;
      }
    }
    // (whole callbacks, including what the subscriber did inside them)
    let mut spans: Vec<(u64, u64)> = r.log.cb_spans.iter().filter(|s| s.0 == k).map(|s| (s.1, s.2)).collect();
    spans.sort();
    for w in spans.windows(2) {
      if w[1].0 < w[0].1 {
        rep.fail = fail("a callback started while the previous one had not returned yet (nested or concurrent delivery)".into());
        return rep;
      }
    }
    if c.subscribe_on {
      if let Some(p) = r.log.probes.iter().find(|p| !p.on_lib_thread) {
        rep.fail = fail(format!("subscribe_on: source #{} was subscribed on a harness thread", p.sid));
        return rep;
      }
    }
  }
  rep
}

/// C06 across threads: when the subscriber has unsubscribed and everything has come to rest,
/// no source that was (or was later) subscribed on behalf of that subscription is left
/// subscribed - also a source that subscribe_on subscribes on its worker only after the
/// unsubscribe. (Not asserted: that the source sees the end at its very next attempt after
/// unsubscribe() returned. C06 does not quantify over interleavings, and the crate lets a
/// scheduler thread that noticed the end first finish the upstream teardown while the
/// caller's unsubscribe() has already returned.)
pub fn c06_conc_check(_ctx: &Ctx, c: &C09Case) -> Report {
  let r = run_cc(&c.cc, 5_000);
  let mut rep = Report::ok();
  rep.classes = super::seq_inv::op_classes(&c.cc.case);
  rep.classes.push(if c.hot { "source:emitter-thread".into() } else { "source:synchronous".into() });
  rep.sample = Some(render_cc(&c.cc, &r));
  if let Some(k) = hung(&r) {
    rep.classes.push(format!("aborted:{}", k));
    return rep;
  }
  let (ucall, uret) = match r.log.unsub_marks[0].first() {
    Some(&m) => m,
    None => return rep,
  };
  let fail = |m: String| Some(format!("{} | {}", m, render_cc(&c.cc, &r)));
  for p in &r.log.probes {
    if p.final_sub {
      rep.fail = fail(format!(
        "source #{} (subscribed at stamp {}) is still subscribed when everything has come to rest, although the subscriber's unsubscribe() returned at stamp {}",
        p.sid, p.at, uret
      ));
      return rep;
    }
  }
  let subscribed_after = r.log.probes.iter().any(|p| p.at > ucall);
  let still_had_events = r.log.probes.iter().any(|p| p.attempts.iter().any(|a| a.stamp > ucall));
  if subscribed_after {
    rep.classes.push("source-subscribed-after-the-unsubscribe-call".into());
  }
  if r.log.probes.is_empty() {
    rep.classes.push("source-never-subscribed".into());
  }
  rep.nontrivial = subscribed_after || still_had_events;
  rep
}

fn c09_check(_ctx: &Ctx, c: &C09Case) -> Report {
  c09_check_impl(c, false)
}

fn c05_conc_check(_ctx: &Ctx, c: &C09Case) -> Report {
  c09_check_impl(c, true)
}

/// C05 cross-thread part on operator pipelines without schedulers: emitter threads into hot
/// sources / subjects, one unsubscribing thread
#[derive(Clone, Debug, Serialize, Deserialize)]
pub struct C05Case {
  pub cc: ConcCase,
}

pub fn c05_plain_strategy(_ctx: &Ctx) -> BoxedStrategy<C05Case> {
  let kinds = prop::sample::select(vec![HotKind::Harness, HotKind::Subject, HotKind::Behavior(-1), HotKind::Replay]);
  let shape = prop::sample::select(vec!["chain", "merge", "zip", "flat_map", "take_until"]);
  (kinds, shape, prop::collection::vec(id_ops(), 0..=3), 1usize..=4, 1usize..=3, 0u8..=3, sched_strategy())
    .prop_map(|(kind, shape, ops, l0, l1, delay, sched)| {
      let hot = |i: usize| Node::Src(0, Src::Hot(i));
      let two = shape != "chain";
      let mut root = match shape {
        "merge" => Node::Nary(Comb::Merge, vec![hot(0), hot(1)]),
        "zip" => Node::Nary(Comb::Zip, vec![hot(0), hot(1)]),
        "flat_map" => Node::FlatMap(Box::new(Node::Un(Op::Map(MapF::Const(0)), Box::new(hot(0)))), vec![hot(1)]),
        "take_until" => Node::Gate(Gate::TakeUntil, Box::new(hot(0)), Box::new(Node::Un(Op::Skip(9), Box::new(hot(1))))),
        _ => hot(0),
      };
      for op in ops {
        root = Node::Un(op, Box::new(root));
      }
      root.renumber();
      let mut threads: Vec<Vec<Action>> =
        vec![unique_script(0, l0, Some(Ev::C)).iter().map(|e| Action::Emit(0, e.clone())).collect()];
      if two {
        threads.push(unique_script(1, l1, None).iter().map(|e| Action::Emit(1, e.clone())).collect());
      }
      let mut t = vec![];
      for _ in 0..delay {
        t.push(Action::Advance(0));
      }
      t.push(Action::Unsub(0));
      t.push(Action::Unsub(0));
      threads.push(t);
      let hots = if two { vec![kind, HotKind::Harness] } else { vec![kind] };
      let case = Case { root, hots, hot_illformed: false, conn: None, conn_take: None, conn_take_only: None, recorders: vec![vec![]], actions: vec![Action::Subscribe(0)] };
      C05Case { cc: ConcCase { case, threads, sched } }
    })
    .boxed()
}

fn c05_plain_check(_ctx: &Ctx, c: &C05Case) -> Report {
  let r = run_cc(&c.cc, 100);
  let mut rep = Report::ok();
  rep.classes = super::seq_inv::op_classes(&c.cc.case);
  rep.sample = Some(render_cc(&c.cc, &r));
  if let Some(k) = hung(&r) {
    rep.classes.push(format!("aborted:{}", k));
    return rep;
  }
  let fail = |m: String| Some(format!("{} | {}", m, render_cc(&c.cc, &r)));
  let evs = ordered(&r.log.recs[0]);
  if let Some(&(ucall, uret)) = r.log.unsub_marks[0].first() {
    let overlapped = r.log.call_marks.iter().any(|m| matches!(m.action, Action::Emit(_, _)) && m.call < uret && m.ret > ucall);
    rep.nontrivial = overlapped;
    if overlapped {
      rep.classes.push("unsubscribe-overlapped-an-emission".into());
    }
    for e in &evs {
      if e.start <= uret {
        continue;
      }
      let started_before = match &e.k {
        Rk::N(p) => {
          let vals: Vec<i64> = match p {
            P::L(v) => v.iter().map(|x| x.as_i64()).collect(),
            other => vec![other.as_i64()],
          };
          vals.iter().filter_map(|v| emit_call_of(&r, *v)).map(|m| m.call).max().map_or(true, |call| call < uret)
        }
        _ => r
          .log
          .call_marks
          .iter()
          .filter(|m| matches!(&m.action, Action::Emit(_, ev) if ev.is_terminal()))
          .any(|m| m.call < uret),
      };
      if !started_before {
        rep.fail = fail(format!(
          "{} delivered (start {}) for an emission that started after unsubscribe() had returned (stamp {})",
          e.k.show(),
          e.start,
          uret
        ));
        return rep;
      }
    }
    // is_subscribed() is false once unsubscribe returned
    if let Some((_, row)) = r.log.timeline.last() {
      if row.first().copied().flatten() == Some(true) {
        rep.fail = fail("Subscription::is_subscribed() still true after unsubscribe()".into());
      }
    }
  }
  rep
}

// ---------------------------------------------------------------------------------------
// C14 across threads: the same Observable value subscribed by two threads at the same time

#[derive(Clone, Debug, Serialize, Deserialize)]
pub struct C14ConcCase {
  pub cc: ConcCase,
}

pub fn c14_conc_strategy(_ctx: &Ctx) -> BoxedStrategy<C14ConcCase> {
  // single-source operators over synchronous sources: nothing in the pipeline depends on a
  // thread or on time, so each subscription is a function of the pipeline alone
  let cfg = crate::gen::GenCfg { max_script: 5, ..crate::gen::GenCfg::default() };
  (crate::gen::chain(&cfg, 1, 3), sched_strategy())
    .prop_map(|(root, sched)| {
      let case = Case { root, hots: vec![], hot_illformed: false, conn: None, conn_take: None, conn_take_only: None, recorders: vec![vec![], vec![]], actions: vec![] };
      C14ConcCase { cc: ConcCase { case, threads: vec![vec![Action::Subscribe(0)], vec![Action::Subscribe(1)]], sched } }
    })
    .boxed()
}

pub fn c14_conc_check(_ctx: &Ctx, c: &C14ConcCase) -> Report {
  let mut rep = Report::ok();
  rep.classes = super::seq_inv::op_classes(&c.cc.case);
  // what one subscription, alone, receives (reference interpreter)
  let mut alone = c.cc.case.clone();
  alone.recorders = vec![vec![]];
  alone.actions = vec![Action::Subscribe(0)];
  let expected: Vec<Vec<Rk>> = crate::model::Conv::all()
    .into_iter()
    .filter_map(|cv| crate::model::run_model_opt(&alone, cv, false).ok().map(|m| m.traces[0].clone()))
    .collect();
  if expected.is_empty() {
    rep.classes.push("model-unsupported".into());
    return rep;
  }
  let r = run_cc(&c.cc, 100);
  rep.sample = Some(render_cc(&c.cc, &r));
  if let Some(k) = hung(&r) {
    if let Some(p) = crate_panic(&r.outcome) {
      rep.fail = Some(format!("{} | {}", p, render_cc(&c.cc, &r)));
      return rep;
    }
    rep.classes.push(format!("aborted:{}", k));
    return rep;
  }
  // non-trivial: the two subscribe calls overlapped
  let overlapped = match (r.log.sub_marks.get(0).copied().flatten(), r.log.sub_marks.get(1).copied().flatten()) {
    (Some(a), Some(b)) => a.0 < b.1 && b.0 < a.1,
    _ => false,
  };
  rep.nontrivial = overlapped;
  if overlapped {
    rep.classes.push("the-two-subscribe-calls-overlapped".into());
  }
  for k in 0..2 {
    let got: Vec<Rk> = ordered(&r.log.recs[k]).iter().map(|e| e.k.clone()).collect();
    if !expected.contains(&got) {
      rep.fail = Some(format!(
        "subscriber {} (of two threads subscribing the same observable at once) received {}, a subscriber on its own receives {} | {}",
        k,
        show_trace(&got),
        show_trace(&expected[0]),
        render_cc(&c.cc, &r)
      ));
      return rep;
    }
  }
  rep
}

pub fn sub_c14_conc() -> Sub {
  mk_sub("conc", (500, 10_000), c14_conc_strategy, c14_conc_check)
}

pub fn c05_conc_subs() -> Vec<Sub> {
  vec![
    mk_sub("conc", (800, 15_000), c05_plain_strategy, c05_plain_check),
    mk_sub("conc_sched", (500, 10_000), |ctx| c09_strategy(ctx, true), c05_conc_check),
  ]
}

pub fn properties() -> Vec<Property> {
  vec![
    Property {
      id: "C09",
      rule: "cases = script of 0..6 (one case in eleven: 34..70) unique items + ending, played synchronously by a cold source or by an emitter thread into a hot source, through [0..2 ops] observe_on|subscribe_on (also stacked twice) [0..2 ops] on new-thread schedulers, optional unsubscribing thread, generated schedule (sparse overrides or dense random walk); oracle = received equals the reference trace of the pipeline without scheduler operators (prefix if unsubscribed), one scheduler thread, no overlapping callbacks, subscribe_on subscribes on the worker, nothing for emissions started after unsubscribe returned; non-trivial = >= 2 events and >= 4 thread switches in the schedule",
      assumptions: vec!["schedules are explored by generation (sparse preemption-bounded + random walk), not exhaustively"],
      subs: vec![mk_sub("sched", (600, 12_000), |ctx| c09_strategy(ctx, false), c09_check)],
    },
    Property {
      id: "C11",
      rule: "cases = 2..3 inputs with unique item scripts (1..4 items + complete) pushed by harness threads into hot sources (merge, zip, amb, flat_map outer) or played by cold sources on their own scheduler threads (merge, zip, concat, flat_map inners), optional take(n) or aggregate (count / sum / reduce(+) / max / scan(+) / buffer_with_count(2) / group_by(x mod 2) over merge / concat / flat_map) downstream, generated schedule; oracle = conservation (multiset, per-input order, zip pairing, concat order, amb = exactly one input), exactly one complete and last, take(n) <= n, aggregate = the aggregate of all inputs' items (scan: as many running totals as items, the largest the total; buffer: every item in exactly one buffer; group_by: nothing lost, one group per key); non-trivial = >= 4 thread switches",
      assumptions: vec!["schedules explored by generation, not exhaustively"],
      subs: vec![mk_sub("combinators", (800, 15_000), c11_strategy, c11_check)],
    },
    Property {
      id: "C12",
      rule: "cases = 1..2 producer threads pushing unique items into a Subject / BehaviorSubject / ReplaySubject, an observer subscribed throughout, optionally one subscribing from its own thread and one unsubscribing from its own thread, in half of the cases one more subscribing 50 ms (virtual) after everything else (ReplaySubject: in half of those a further thread calls complete() meanwhile - then only: what observer 0 received is contained in what the late one is replayed, once each, plus the terminal), 0..4 items pushed beforehand, generated schedule; oracle = exactly-once, per-producer gap-free runs in order, nothing lost while subscribed, nothing after unsubscribe returned, replay completeness in push order, behavior: a value then every later value; non-trivial = the subscribe / unsubscribe call overlapped a push",
      assumptions: vec!["push order = order of the producers' call/return stamps; overlapping pushes may be observed in either order"],
      subs: vec![mk_sub("subjects", (800, 15_000), c12_strategy, c12_check)],
    },
    Property {
      id: "C19",
      rule: "cases = 2..3 harness threads over merge / zip / amb / flat_map / take_until / skip_until / sample / the four subjects, one signalling a terminal (error, trigger-forced completion) while another emits unique items or its own terminal, generated schedule; oracle = at most one terminal; nothing delivered for an emission that started after the terminal callback returned; non-trivial = the terminal's delivery overlapped another thread's emission call",
      assumptions: vec!["a callback already in flight when the terminal callback returns is tolerated (the statement speaks of emissions that started afterwards)"],
      subs: vec![mk_sub("races", (800, 15_000), c19_strategy, c19_check)],
    },
  ]
}
