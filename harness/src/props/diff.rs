//! Differential properties against the reference interpreter: C02, C03, C04, C14 and the
//! inner-ending part of C06.

use super::seq_inv::{case_size, op_classes, render, run_seq, seq_strategy, SeqCase};
use super::*;
use crate::val::{MapF, Pred, RPred};
use crate::ast::*;
use crate::gen::{self, CaseCfg, GenCfg};
use crate::model::{self, Conv, MResult, ModelErr};
use crate::real::*;
use proptest::prelude::*;

pub struct DiffOut {
  pub rep: Report,
  pub real: Option<RunResult>,
  pub model: Option<MResult>,
}

fn show_model(m: &MResult) -> String {
  let t: Vec<String> = m.traces.iter().enumerate().map(|(k, t)| format!("r{}={}", k, show_trace(t))).collect();
  t.join(" ")
}

#[derive(Clone, Copy, Default)]
pub struct DiffOpts {
  pub check_tap: bool,
  pub check_factories: bool,
  /// compare source subscription counts of PerSub sources (retry / resume bookkeeping)
  pub check_persub_counts: bool,
  /// compare every observer's items as a multiset (its terminal still last): for histories
  /// whose delivery order depends on the unspecified broadcast order of a subject
  pub unordered_items: bool,
}

fn unordered(ts: &[Vec<Rk>]) -> Vec<Vec<String>> {
  ts.iter()
    .map(|t| {
      let mut items: Vec<String> = t.iter().filter(|e| matches!(e, Rk::N(_))).map(|e| format!("{:?}", e)).collect();
      items.sort();
      // position of the first terminal relative to the items, and the terminals themselves
      let cut = t.iter().position(|e| !matches!(e, Rk::N(_))).unwrap_or(t.len());
      items.push(format!("terminal-after-{}-of-{}", cut, t.len()));
      items.extend(t.iter().filter(|e| !matches!(e, Rk::N(_))).map(|e| format!("{:?}", e)));
      items
    })
    .collect()
}

/// run the case on the crate and on the model; report the first disagreement
pub fn diff(c: &SeqCase, opts: DiffOpts) -> DiffOut {
  let mut rep = Report::ok();
  rep.classes = op_classes(&c.case);
  let first = match model::run_model(&c.case, Conv::all()[0]) {
    Ok(m) => m,
    Err(ModelErr::Unsupported(x)) => {
      rep.classes.push(format!("model-unsupported:{}", x.split('(').next().unwrap_or("")));
      return DiffOut { rep, real: None, model: None };
    }
    Err(ModelErr::Unbounded) => {
      rep.classes.push("model-unbounded(generator)".into());
      return DiffOut { rep, real: None, model: None };
    }
  };
  let r = run_seq(c);
  rep.sample = Some(render(c, &r));
  use arx_rt::Kind::*;
  match r.outcome.kind {
    Done | Quiescent => {}
    ref k => {
      if let Some(p) = crate_panic(&r.outcome) {
        rep.fail = Some(format!("{} | {}", p, render(c, &r)));
        return DiffOut { rep, real: Some(r), model: Some(first) };
      }
      // hangs / deadlocks / endless producers are C07's and C06's findings
      rep.classes.push(format!("aborted:{:?}", k));
      return DiffOut { rep, real: Some(r), model: Some(first) };
    }
  }
  let real_traces: Vec<Vec<Rk>> = (0..r.log.recs.len()).map(|k| r.trace(k)).collect();
  let mut accepted: Option<MResult> = None;
  let mut vectors = 0;
  for (i, conv) in Conv::all().into_iter().enumerate() {
    let m = if i == 0 {
      first.clone()
    } else {
      match model::run_model(&c.case, conv) {
        Ok(m) => m,
        Err(_) => continue,
      }
    };
    vectors += 1;
    if m.traces == real_traces || (opts.unordered_items && unordered(&m.traces) == unordered(&real_traces)) {
      if i > 0 {
        rep.classes.push(format!("convention-vector:{}", i));
      }
      accepted = Some(m);
      break;
    }
  }
  let _ = vectors;
  let m = match accepted {
    Some(m) => m,
    None => {
      rep.fail = Some(format!(
        "trace differs from the reference: crate {} | reference {} | {}",
        real_traces.iter().enumerate().map(|(k, t)| format!("r{}={}", k, show_trace(t))).collect::<Vec<_>>().join(" "),
        show_model(&first),
        c.case.show()
      ));
      return DiffOut { rep, real: Some(r), model: Some(first) };
    }
  };
  if opts.check_tap && m.tap_log != r.log.tap_log {
    rep.fail = Some(format!(
      "tap side effects differ: crate {} | reference {} | {}",
      show_trace(&r.log.tap_log),
      show_trace(&m.tap_log),
      c.case.show()
    ));
  }
  // factory calls are only compared where no operator may legitimately decide not to
  // subscribe an input at all (amb once a winner exists, merge / zip / gates after an early
  // synchronous end): DESIGN.md 2.5, "subscription counts"
  // (how often a shared connection subscribes its source around an early end is bookkeeping
  // no statement fixes: only the traces are compared for pipelines with ref_count / replay)
  let has_conn = c.case.root.has_op(&|n| matches!(n, Node::Un(Op::RefCount, _) | Node::Un(Op::ReplayConn, _)));
  let may_skip_inputs = c.case.root.has_op(&|n| {
    matches!(n, Node::Nary(Comb::Amb, _) | Node::Nary(Comb::Merge, _) | Node::Nary(Comb::Zip, _) | Node::Nary(Comb::CombineLatest, _) | Node::Nary(Comb::SequenceEqual, _) | Node::Gate(_, _, _))
  });
  if opts.check_factories && !may_skip_inputs && !has_conn && rep.fail.is_none() && m.factory_calls != r.log.factory_calls {
    rep.fail = Some(format!(
      "defer/start factories were called {:?} times (id, calls), reference {:?} | {}",
      r.log.factory_calls,
      m.factory_calls,
      c.case.show()
    ));
  }
  if opts.check_persub_counts && !has_conn && rep.fail.is_none() {
    let mut persub = Vec::new();
    c.case.root.walk(&mut |n| {
      if let Node::Src(sid, Src::PerSub { .. }) = n {
        persub.push(*sid);
      }
    });
    for sid in persub {
      let a = r.log.sub_counts.iter().find(|x| x.0 == sid).map(|x| x.1).unwrap_or(0);
      let b = m.sub_counts.iter().find(|x| x.0 == sid).map(|x| x.1).unwrap_or(0);
      if a != b {
        rep.fail = Some(format!(
          "source #{} was subscribed {} times, reference {} | {}",
          sid,
          a,
          b,
          render(c, &r)
        ));
        break;
      }
    }
  }
  DiffOut { rep, real: Some(r), model: Some(m) }
}

// ---------------------------------------------------------------------------------------
// C02

fn known_excludes(ctx: &Ctx) -> Vec<String> {
  let mut v = Vec::new();
  for (sw, op) in [
    ("no_combine_latest", "combine_latest"),
    ("no_skip_while", "skip_while"),
    ("no_window", "window"),
    ("no_element_at", "element_at"),
    ("no_sequence_equal", "sequence_equal"),
    ("no_tap", "tap"),
    ("no_concat", "concat"),
    ("no_default_if_empty", "default_if_empty"),
  ] {
    if ctx.excl(sw) {
      v.push(op.to_string());
    }
  }
  v
}

fn c02_cfg(ctx: &Ctx) -> GenCfg {
  GenCfg { max_script: 8, exclude: known_excludes(ctx), ..GenCfg::default() }
}

fn c02_strategy(ctx: &Ctx) -> BoxedStrategy<SeqCase> {
  let cfg = c02_cfg(ctx);
  let max_ops = ctx.tier.pick(4, 6);
  (gen::chain(&cfg, 1, max_ops), 0u64..4)
    .prop_map(|(root, hash_seed)| SeqCase {
      case: Case { root, hots: vec![], hot_illformed: false, conn: None, conn_take: None, conn_take_only: None, recorders: vec![vec![]], actions: vec![Action::Subscribe(0)] },
      hash_seed,
    })
    .boxed()
}

/// the same chains at sizes the other generators never reach: inputs of tens of items, count
/// parameters up to 300 (around 128 and 256 in particular)
fn c02_large_strategy(ctx: &Ctx) -> BoxedStrategy<SeqCase> {
  let cfg = GenCfg { big: true, max_script: 60, ..c02_cfg(ctx) };
  (gen::chain(&cfg, 1, 3), 0u64..4)
    .prop_map(|(root, hash_seed)| SeqCase {
      case: Case { root, hots: vec![], hot_illformed: false, conn: None, conn_take: None, conn_take_only: None, recorders: vec![vec![]], actions: vec![Action::Subscribe(0)] },
      hash_seed,
    })
    .boxed()
}

fn large_class(rep: &mut Report, c: &SeqCase) {
  let size = case_size(&c.case);
  rep.classes.push(format!("size:{}", if size <= 40 { "<=40" } else if size <= 120 { "41-120" } else { ">120" }));
  rep.nontrivial = rep.nontrivial && size > 40;
}

fn c02_large_check(ctx: &Ctx, c: &SeqCase) -> Report {
  let mut rep = c02_check(ctx, c);
  large_class(&mut rep, c);
  rep
}

/// single-source operators over a hot source whose subscriber pushes further items into that
/// source from inside its callbacks: the operator sees the items in the order in which they
/// arrive (the re-entrant one in the middle of the delivery of the one that caused it) and
/// must apply its definition to that sequence
fn c02_reentrant_strategy(ctx: &Ctx) -> BoxedStrategy<SeqCase> {
  let _ = ctx;
  // Only operators that never end the stream by themselves: for those the definition fixes
  // the outcome (their state must reflect an item before the item's result is handed on).
  // In which order an operator that ends early (take, all, first ...) emits its last item and
  // cuts its source off is its own business, and decides what a re-entrant item meets.
  let op = prop_oneof![
    (0i64..3).prop_map(|k| Op::Map(MapF::Add(k))),
    prop_oneof![Just(Pred::Even), (0i64..3).prop_map(Pred::Ne), Just(Pred::True)].prop_map(Op::Filter),
    (0usize..3).prop_map(Op::Skip),
    prop_oneof![(0i64..3).prop_map(Pred::Lt), Just(Pred::Even)].prop_map(Op::SkipWhile),
    Just(Op::Distinct),
    prop_oneof![Just(crate::val::Fold::Add), Just(crate::val::Fold::Max)].prop_map(Op::Scan),
    Just(Op::Tap),
    (0i64..3).prop_map(Op::DefaultIfEmpty),
  ];
  // optionally an operator that ends the stream by itself on top: there only the bound is
  // judged (at most n items, one terminal, nothing after it), not the exact items
  let tail = prop::option::weighted(0.3, prop_oneof![(0usize..3).prop_map(Op::Take), Just(Op::First)]);
  let chain = (prop::collection::vec(op, 1..=3), tail).prop_map(|(ops, tail)| {
    let mut n = Node::Src(0, Src::Hot(0));
    for op in ops.into_iter().chain(tail.into_iter()) {
      n = Node::Un(op, Box::new(n));
    }
    n.renumber();
    n
  });
  // what the subscriber does from inside its n-th callback: push an item, or end the source
  let react = (0usize..4, 0i64..5).prop_map(|(at, v)| Reaction {
    at,
    what: React::Emit(0, if v == 4 { Ev::C } else { Ev::N(v) }),
  });
  (chain, gen::script_wf(5, 1), prop::collection::vec(react, 1..=2), 0u64..4)
    .prop_map(|(root, script, reactions, hash_seed)| {
      let mut actions = vec![Action::Subscribe(0)];
      actions.extend(script.into_iter().map(|e| Action::Emit(0, e)));
      SeqCase {
        case: Case { root, hots: vec![HotKind::Harness], hot_illformed: false, conn: None, conn_take: None, conn_take_only: None, recorders: vec![reactions], actions },
        hash_seed,
      }
    })
    .boxed()
}

fn c02_reentrant_check(_ctx: &Ctx, c: &SeqCase) -> Report {
  let bound = match &c.case.root {
    Node::Un(Op::Take(n), _) => Some(*n),
    Node::Un(Op::First, _) => Some(1),
    _ => None,
  };
  if let Some(n) = bound {
    let r = run_seq(c);
    let mut rep = Report::ok();
    rep.classes = op_classes(&c.case);
    rep.classes.push("ends-by-itself(bound only)".into());
    rep.sample = Some(render(c, &r));
    if !matches!(r.outcome.kind, arx_rt::Kind::Done | arx_rt::Kind::Quiescent) {
      rep.classes.push(format!("aborted:{:?}", r.outcome.kind));
      return rep;
    }
    rep.nontrivial = !r.log.reactions_fired.is_empty();
    let t = r.trace(0);
    let items = t.iter().filter(|e| matches!(e, Rk::N(_))).count();
    let terminals = t.iter().filter(|e| !matches!(e, Rk::N(_))).count();
    let after = t.iter().position(|e| !matches!(e, Rk::N(_))).map_or(false, |i| i + 1 < t.len());
    if items > n || terminals > 1 || after {
      rep.fail = Some(format!(
        "{} item(s) and {} terminal(s) through an operator that lets at most {} item(s) pass | {}",
        items, terminals, n, render(c, &r)
      ));
    }
    return rep;
  }
  let out = diff(c, DiffOpts::default());
  let mut rep = out.rep;
  if let Some(r) = &out.real {
    rep.nontrivial = !r.log.reactions_fired.is_empty();
  }
  rep
}

fn c02_check(_ctx: &Ctx, c: &SeqCase) -> Report {
  let out = diff(c, DiffOpts { check_tap: true, check_factories: true, ..Default::default() });
  let mut rep = out.rep;
  // non-trivial: chain length >= 2, or a boundary parameter, or an empty / erroring input
  let mut ops = Vec::new();
  let mut src_len = None;
  let mut src_special = false;
  c.case.root.walk(&mut |n| match n {
    Node::Un(op, _) => ops.push(op.clone()),
    Node::Src(_, Src::Cold { script, .. }) => {
      let items = script.iter().filter(|e| !e.is_terminal()).count();
      src_len = Some(items);
      src_special = items == 0 || !matches!(script.last(), Some(Ev::C));
    }
    Node::Src(_, Src::FromIter(v)) => src_len = Some(v.len()),
    Node::Src(_, Src::Empty) | Node::Src(_, Src::Never) | Node::Src(_, Src::Error(_)) => src_special = true,
    _ => {}
  });
  let boundary = src_len.map_or(false, |l| ops.iter().any(|o| gen::boundary_param(o, l)));
  rep.nontrivial = out.real.is_some() && (ops.len() >= 2 || boundary || src_special);
  if boundary {
    rep.classes.push("boundary-parameter".into());
  }
  if src_special {
    rep.classes.push("empty-or-erroring-or-silent-input".into());
  }
  rep.classes.push(format!("chain-length:{}", ops.len()));
  rep
}

// ---------------------------------------------------------------------------------------
// C03

fn c03_cfg(ctx: &Ctx) -> CaseCfg {
  let mut exclude = known_excludes(ctx);
  exclude.push("sequence_equal".into());
  CaseCfg {
    gen: GenCfg {
      depth: ctx.tier.pick(3, 5),
      max_script: 5,
      nhot: 3,
      combine: true,
      // (shared connections as inputs of the combining operators)
      connectable: true,
      exclude,
      ..GenCfg::default()
    },
    // a third of the hot inputs is one of the crate's own subjects
    hot_kinds: vec![
      HotKind::Harness,
      HotKind::Harness,
      HotKind::Harness,
      HotKind::Harness,
      HotKind::Subject,
      HotKind::Behavior(7),
      HotKind::Replay,
      HotKind::Async,
    ],
    hot_script: 5,
    ..CaseCfg::default()
  }
}

/// A subject serves several observers in an order nothing specifies (HashMap), the harness
/// source and the reference in subscription order: a subject that the pipeline subscribes
/// more than once is replaced by the harness kind.
fn single_reference_subjects(mut c: SeqCase) -> SeqCase {
  let mut refs = vec![0usize; c.case.hots.len()];
  c.case.root.walk(&mut |n| {
    if let Node::Src(_, Src::Hot(i)) = n {
      if *i < refs.len() {
        refs[*i] += 1;
      }
    }
    if let Node::ReadySetGo(i, _, _) = n {
      if *i < refs.len() {
        refs[*i] += 2;
      }
    }
  });
  // inner tables of flat_map / on_error_resume_next are instantiated once per outer item
  let nested = c.case.root.has_op(&|n| matches!(n, Node::FlatMap(_, _) | Node::Resume(_, _) | Node::Un(Op::Retry(_), _) | Node::Un(Op::RetryWhen(_), _)));
  for (i, k) in c.case.hots.iter_mut().enumerate() {
    if *k != HotKind::Harness && (refs[i] != 1 || nested) {
      *k = HotKind::Harness;
    }
  }
  c
}

/// A shared connection (publish().ref_count() / replay().ref_count()) serves its subscribers
/// through a Subject, i.e. in an order nothing specifies (HashMap). When one connection can
/// have several subscribers at the same time - the node occurs twice, or below an operator
/// that subscribes its inner pipelines once per item / attempt - the items of one instant
/// may arrive in either order: they are compared as a multiset then.
pub(crate) fn conn_shared_by_several(root: &Node) -> bool {
  let mut conns = 0;
  root.walk(&mut |n| {
    if matches!(n, Node::Un(Op::RefCount, _) | Node::Un(Op::ReplayConn, _)) {
      conns += 1;
    }
  });
  let nested = root.has_op(&|n| matches!(n, Node::FlatMap(_, _) | Node::Resume(_, _) | Node::Un(Op::Retry(_), _) | Node::Un(Op::RetryWhen(_), _)));
  conns >= 2 || (conns >= 1 && nested)
}

fn has_comb(n: &Node) -> bool {
  n.has_op(&|x| matches!(x, Node::Nary(_, _) | Node::Gate(_, _, _) | Node::FlatMap(_, _) | Node::ReadySetGo(_, _, _)))
}

pub(crate) fn c03_check(_ctx: &Ctx, c: &SeqCase) -> Report {
  let unordered_items = conn_shared_by_several(&c.case.root);
  let out = diff(c, DiffOpts { unordered_items, ..Default::default() });
  let mut rep = out.rep;
  if unordered_items {
    rep.classes.push("shared-connection-with-several-subscribers(items as multiset)".into());
  }
  for k in &c.case.hots {
    if *k != HotKind::Harness {
      rep.classes.push(format!("hot-input:{:?}", k).split('(').next().unwrap().to_string());
    }
  }
  // non-trivial: a combining operator with >= 2 inputs of which the driver order switches
  // hot source at least once, or mixed hot / cold inputs
  let hot_ids = c.case.root.hot_ids();
  let mut switches = 0;
  let mut last = None;
  for a in &c.case.actions {
    if let Action::Emit(i, _) = a {
      if hot_ids.contains(i) {
        if last.is_some() && last != Some(*i) {
          switches += 1;
        }
        last = Some(*i);
      }
    }
  }
  let has_cold = c.case.root.has_op(&|x| matches!(x, Node::Src(_, s) if !matches!(s, Src::Hot(_))));
  let mixed = !hot_ids.is_empty() && has_cold;
  rep.nontrivial = out.real.is_some() && has_comb(&c.case.root) && (switches >= 1 || mixed);
  if switches >= 1 {
    rep.classes.push("hot-interleaving".into());
  }
  if mixed {
    rep.classes.push("mixed-hot-cold".into());
  }
  rep
}

/// sequence_equal over cold inputs, at the root or under a unary chain (the moment at which
/// `false` is announced for sequences of different length is not fixed by the property)
fn c03_seq_eq_strategy(ctx: &Ctx) -> BoxedStrategy<SeqCase> {
  let cfg = GenCfg { max_script: 5, creation: false, window_group: false, exclude: known_excludes(ctx), ..GenCfg::default() };
  let input = gen::chain(&cfg, 0, 2);
  let ops = prop::collection::vec(gen::unary_ops(&cfg), 0..=2);
  // equal sequences must be likely: derive the second input from the first in half of the cases
  (prop::collection::vec(input, 1..=3), any::<bool>(), ops, 0u64..4)
    .prop_map(|(mut ins, dup, ops, hash_seed)| {
      if dup {
        let first = ins[0].clone();
        ins.push(first);
      }
      // every input terminates: when `false` is announced for an input that stays silent
      // is not fixed by the property
      fn terminate(n: &mut Node) {
        if let Node::Src(_, Src::Cold { script, .. }) = n {
          if !script.last().map_or(false, |e| e.is_terminal()) {
            script.push(Ev::C);
          }
        }
        for c in n.children_mut() {
          terminate(c);
        }
      }
      for i in ins.iter_mut() {
        terminate(i);
      }
      let mut root = Node::Nary(Comb::SequenceEqual, ins);
      for op in ops {
        root = Node::Un(op, Box::new(root));
      }
      root.renumber();
      SeqCase {
        case: Case { root, hots: vec![], hot_illformed: false, conn: None, conn_take: None, conn_take_only: None, recorders: vec![vec![]], actions: vec![Action::Subscribe(0)] },
        hash_seed,
      }
    })
    .boxed()
}

fn c03_seq_eq_check(_ctx: &Ctx, c: &SeqCase) -> Report {
  let out = diff(c, DiffOpts::default());
  let mut rep = out.rep;
  let mut n_inputs = 0;
  c.case.root.walk(&mut |n| {
    if let Node::Nary(Comb::SequenceEqual, v) = n {
      n_inputs = v.len()
    }
  });
  rep.nontrivial = out.real.is_some() && n_inputs >= 2;
  if let Some(m) = &out.model {
    if m.traces[0].iter().any(|e| *e == Rk::N(crate::val::P::B(true))) {
      rep.classes.push("result:true".into());
    }
    if m.traces[0].iter().any(|e| *e == Rk::N(crate::val::P::B(false))) {
      rep.classes.push("result:false".into());
    }
  }
  rep
}

/// switch_on_next(target): the source is mirrored until the target's first item, from then
/// on the target is. Only histories whose outcome does not depend on how an implementation
/// orders its bookkeeping are generated (both inputs hot; the source does not end after
/// the switch, the target does not end before its first item), and the expected trace is
/// computed directly from the history.
fn c03_switch_strategy(_ctx: &Ctx) -> BoxedStrategy<SeqCase> {
  let maps = || prop::collection::vec((1i64..4).prop_map(|k| Op::Map(MapF::Add(k))), 0..=1);
  (
    0usize..=3,
    prop::option::weighted(0.2, 1u32..4),
    prop::collection::vec(any::<bool>(), 0..=5),
    0u8..3,
    prop::collection::vec(any::<bool>(), 0..=2),
    (maps(), maps(), maps()),
    0u64..4,
  )
    .prop_map(|(before, src_err, after, ending, tail, (m0, m1, m2), hash_seed)| {
      let mut actions = vec![Action::Subscribe(0)];
      let mut v = 10i64;
      let mut next = |hot: usize, actions: &mut Vec<Action>| {
        v += 1;
        actions.push(Action::Emit(hot, Ev::N(v)));
      };
      for _ in 0..before {
        next(0, &mut actions);
      }
      if let Some(c) = src_err {
        actions.push(Action::Emit(0, Ev::E(c)));
      } else {
        next(1, &mut actions); // the switch
        for from_target in after {
          next(if from_target { 1 } else { 0 }, &mut actions);
        }
        match ending {
          0 => actions.push(Action::Emit(1, Ev::C)),
          1 => actions.push(Action::Emit(1, Ev::E(5))),
          _ => {}
        }
        if ending < 2 {
          // the source goes on after the output has ended
          for _ in tail {
            next(0, &mut actions);
          }
        }
      }
      let wrap = |mut n: Node, ops: Vec<Op>| {
        for op in ops {
          n = Node::Un(op, Box::new(n));
        }
        n
      };
      let a = wrap(Node::Src(0, Src::Hot(0)), m0);
      let b = wrap(Node::Src(0, Src::Hot(1)), m1);
      let mut root = wrap(Node::Gate(Gate::SwitchOnNext, Box::new(a), Box::new(b)), m2);
      root.renumber();
      SeqCase {
        case: Case {
          root,
          hots: vec![HotKind::Harness, HotKind::Harness],
          hot_illformed: false,
          conn: None,
          conn_take: None, conn_take_only: None,
          recorders: vec![vec![]],
          actions,
        },
        hash_seed,
      }
    })
    .boxed()
}

fn c03_switch_check(_ctx: &Ctx, c: &SeqCase) -> Report {
  let mut rep = Report::ok();
  rep.classes = op_classes(&c.case);
  let cfg = arx_rt::Config {
    schedule: arx_rt::Schedule { hash_seed: c.hash_seed, ..Default::default() },
    max_steps: 60_000,
    fuel: 60_000,
  };
  let r = run_case(&c.case, cfg, RunOpts { sentinel: false, ..RunOpts::default() });
  rep.sample = Some(render(c, &r));
  if !matches!(r.outcome.kind, arx_rt::Kind::Done | arx_rt::Kind::Quiescent) {
    rep.fail = Some(format!("the run did not end normally ({:?}) | {}", r.outcome.kind, render(c, &r)));
    return rep;
  }
  // expected trace, straight from the history
  fn adds(n: &Node) -> i64 {
    match n {
      Node::Un(Op::Map(MapF::Add(k)), x) => *k + adds(x),
      _ => 0,
    }
  }
  let (ka, kb, kroot) = {
    let mut n = &c.case.root;
    let mut kroot = 0;
    while let Node::Un(Op::Map(MapF::Add(k)), x) = n {
      kroot += *k;
      n = x;
    }
    match n {
      Node::Gate(Gate::SwitchOnNext, a, b) => (adds(a), adds(b), kroot),
      _ => return rep,
    }
  };
  let mut expected: Vec<Rk> = Vec::new();
  let (mut switched, mut ended, mut ignored_after_switch) = (false, false, 0);
  for a in &c.case.actions {
    if let Action::Emit(h, ev) = a {
      if ended {
        continue;
      }
      match (h, ev) {
        (0, Ev::N(v)) if !switched => expected.push(Rk::N(crate::val::P::I(v + ka + kroot))),
        (0, Ev::N(_)) => ignored_after_switch += 1,
        (1, Ev::N(v)) => {
          switched = true;
          expected.push(Rk::N(crate::val::P::I(v + kb + kroot)));
        }
        (_, Ev::E(code)) => {
          expected.push(Rk::E(*code));
          ended = true;
        }
        (1, Ev::C) => {
          expected.push(Rk::C);
          ended = true;
        }
        _ => {}
      }
    }
  }
  if switched {
    rep.classes.push("switched".into());
  }
  if ignored_after_switch > 0 {
    rep.classes.push("source-item-after-the-switch".into());
  }
  rep.nontrivial = switched;
  let got = r.trace(0);
  if got != expected {
    rep.fail = Some(format!(
      "switch_on_next delivered {} where the history defines {} | {}",
      show_trace(&got),
      show_trace(&expected),
      render(c, &r)
    ));
  }
  rep
}

/// ready_set_go: the action emits into a hot source that the inner pipeline listens to;
/// nothing the action emits may be missed
pub(crate) fn c03_rsg_strategy(ctx: &Ctx) -> BoxedStrategy<SeqCase> {
  let cfg = GenCfg { nhot: 1, cold: false, creation: false, max_script: 4, exclude: known_excludes(ctx), ..GenCfg::default() };
  (gen::chain(&cfg, 0, 2), gen::script_wf(4, 1), gen::script_wf(3, 1), 0u64..4)
    .prop_map(|(inner, script, later, hash_seed)| {
      let mut root = Node::ReadySetGo(0, script, Box::new(inner));
      root.renumber();
      let mut actions = vec![Action::Subscribe(0)];
      actions.extend(later.into_iter().map(|e| Action::Emit(0, e)));
      SeqCase {
        case: Case { root, hots: vec![HotKind::Harness], hot_illformed: false, conn: None, conn_take: None, conn_take_only: None, recorders: vec![vec![]], actions },
        hash_seed,
      }
    })
    .boxed()
}

fn c03_rsg_check(_ctx: &Ctx, c: &SeqCase) -> Report {
  let out = diff(c, DiffOpts::default());
  let mut rep = out.rep;
  let emitted = match &c.case.root {
    Node::ReadySetGo(_, s, _) => s.len(),
    _ => 0,
  };
  rep.nontrivial = out.real.is_some() && emitted >= 1;
  rep
}

// ---------------------------------------------------------------------------------------
// C04

fn c04_cfg(ctx: &Ctx) -> CaseCfg {
  let mut exclude = known_excludes(ctx);
  exclude.push("sequence_equal".into());
  CaseCfg {
    gen: GenCfg {
      depth: ctx.tier.pick(3, 5),
      max_script: 5,
      nhot: 1,
      err_weight: 6,
      combine: true,
      recovery: true,
      // publish().ref_count() / replay().ref_count() below the recovery operators: a retry
      // re-subscribes the shared connection from inside its error delivery
      connectable: true,
      exclude,
      ..GenCfg::default()
    },
    hot_kinds: vec![HotKind::Harness],
    ..CaseCfg::default()
  }
}

fn large_case_cfg(mut cfg: CaseCfg) -> CaseCfg {
  cfg.gen.big = true;
  cfg.gen.depth = 2;
  cfg.gen.max_nodes = 8;
  cfg.gen.max_script = 30;
  cfg.hot_script = 30;
  cfg
}

fn c03_large_check(ctx: &Ctx, c: &SeqCase) -> Report {
  let mut rep = c03_check(ctx, c);
  large_class(&mut rep, c);
  rep
}

fn c04_large_check(ctx: &Ctx, c: &SeqCase) -> Report {
  let mut rep = c04_check(ctx, c);
  large_class(&mut rep, c);
  rep
}

fn c14_large_strategy(ctx: &Ctx) -> BoxedStrategy<SeqCase> {
  let mut cfg = large_case_cfg(c14_cfg(ctx));
  cfg.max_rec = 12;
  seq_strategy(cfg)
    .prop_map(|mut c| {
      for r in c.case.recorders.iter_mut() {
        r.retain(|x| matches!(x.what, React::Subscribe(_)));
      }
      c
    })
    .boxed()
}

fn c14_large_check(ctx: &Ctx, c: &SeqCase) -> Report {
  let mut rep = c14_check(ctx, c);
  large_class(&mut rep, c);
  rep
}

pub(crate) fn c04_check(_ctx: &Ctx, c: &SeqCase) -> Report {
  let out = diff(c, DiffOpts { check_persub_counts: true, unordered_items: conn_shared_by_several(&c.case.root), ..Default::default() });
  let mut rep = out.rep;
  if let (Some(r), Some(m)) = (&out.real, &out.model) {
    // non-trivial: an error passed through >= 1 operator with >= 1 item before it, or a
    // resubscription happened
    let resub = m.sub_counts.iter().any(|(_, n)| *n >= 2);
    let err_after_item = r.log.recs.iter().any(|evs| {
      evs.iter().any(|e| matches!(e.k, Rk::E(_))) && evs.iter().any(|e| matches!(e.k, Rk::N(_)))
    }) && c.case.root.size() > 1;
    rep.nontrivial = resub || err_after_item;
    if resub {
      rep.classes.push("resubscription".into());
    }
    if err_after_item {
      rep.classes.push("error-after-items-through-operator".into());
    }
    // the error is delivered exactly once, last, with a harness payload (payload identity:
    // code_of() downcasts to the harness ErrPayload type; a foreign payload shows as 9998)
    for evs in &r.log.recs {
      let errs = evs.iter().filter(|e| matches!(e.k, Rk::E(_))).count();
      if errs > 1 {
        rep.fail = Some(format!("error delivered {} times | {}", errs, render(c, r)));
      }
      if evs.iter().any(|e| e.k == Rk::E(CODE_FOREIGN)) && rep.fail.is_none() {
        rep.fail = Some(format!("error payload was replaced (downcast_ref::<ErrPayload>() failed) | {}", render(c, r)));
      }
    }
  }
  rep
}

/// recovery operators over a *subject* as the source: the resubscription happens from inside
/// the subject's own error delivery, and (plain Subject) the subject goes on after an error
fn c04_hot_strategy(_ctx: &Ctx) -> BoxedStrategy<SeqCase> {
  let kind = prop::sample::select(vec![HotKind::Subject, HotKind::Subject, HotKind::Behavior(9), HotKind::Replay]);
  let seg = || prop::collection::vec(0i64..6, 0..=2);
  let segs = prop::collection::vec((seg(), 1u32..4), 1..=3);
  // (a shared connection below the recovery operator: the retry re-subscribes publish().ref_count()
  // from inside the error delivery of the connection that just failed)
  let idop = || prop::collection::vec(prop_oneof![2 => Just(Op::Map(MapF::Add(1))), 1 => Just(Op::Filter(Pred::True)), 1 => Just(Op::Skip(1)), 2 => Just(Op::RefCount)], 0..=1);
  (kind, segs, seg(), 0u8..3, 0u8..6, 0usize..4, idop(), idop(), 0u64..4)
    .prop_map(|(kind, segs, tail, ending, rec, n, pre, post, hash_seed)| {
      let sticky = kind != HotKind::Subject;
      let mut script: Vec<Ev> = Vec::new();
      for (i, (items, code)) in segs.into_iter().enumerate() {
        if sticky && i >= 1 {
          break;
        }
        script.extend(items.into_iter().map(Ev::N));
        script.push(Ev::E(code));
      }
      if !sticky {
        script.extend(tail.into_iter().map(Ev::N));
        match ending {
          0 => script.push(Ev::C),
          1 => script.push(Ev::E(7)),
          _ => {}
        }
      }
      if sticky {
        // generator soundness: the stored error must not be one the predicate accepts, and
        // retry(0) retries without limit
        for e in script.iter_mut() {
          if let Ev::E(c) = e {
            *c = (*c).max(n as u32);
          }
        }
      }
      let mut root = Node::Src(0, Src::Hot(0));
      for op in pre {
        root = Node::Un(op, Box::new(root));
      }
      root = match rec {
        0 | 1 => Node::Un(Op::Retry(if sticky { n.max(1) } else { n }), Box::new(root)),
        // (a stored error is replayed to every resubscription: no unbounded predicate there)
        2 if !sticky => Node::Un(Op::RetryWhen(RPred::Always), Box::new(root)),
        2 | 3 => Node::Un(Op::RetryWhen(RPred::CodeLt(n as u32)), Box::new(root)),
        4 => Node::Resume(Box::new(root), vec![Node::Src(0, Src::Hot(0))]),
        _ => Node::Resume(Box::new(root), vec![Node::Src(0, Src::Hot(0)), Node::Src(0, Src::Just(50))]),
      };
      for op in post {
        root = Node::Un(op, Box::new(root));
      }
      root.renumber();
      let mut actions = vec![Action::Subscribe(0)];
      actions.extend(script.into_iter().map(|e| Action::Emit(0, e)));
      SeqCase {
        case: Case { root, hots: vec![kind], hot_illformed: false, conn: None, conn_take: None, conn_take_only: None, recorders: vec![vec![]], actions },
        hash_seed,
      }
    })
    .boxed()
}

/// retry budgets over attempts that fail at different moments: a source whose k-th
/// subscription fails inside subscribe() or stays silent, merged with a hot source whose
/// errors fail the attempt that is parked on it later, from the driver. The budget counts
/// attempts, whenever they fail.
fn c04_mixed_strategy(_ctx: &Ctx) -> BoxedStrategy<SeqCase> {
  let attempt = (prop::collection::vec(0i64..6, 0..=2), prop_oneof![3 => (1u32..4).prop_map(Some), 2 => Just(None)]);
  let attempts = prop::collection::vec(attempt, 2..=6);
  let seg = || prop::collection::vec(0i64..6, 0..=1);
  let segs = prop::collection::vec((seg(), 1u32..4), 1..=4);
  (attempts, segs, 0u8..3, 0u8..4, 1usize..=5, any::<bool>(), 0u64..4)
    .prop_map(|(attempts, segs, ending, rec, n, polite, hash_seed)| {
      let scripts: Vec<Vec<Ev>> = attempts
        .into_iter()
        .map(|(items, end)| {
          let mut s: Vec<Ev> = items.into_iter().map(Ev::N).collect();
          if let Some(c) = end {
            s.push(Ev::E(c));
          }
          s
        })
        .collect();
      let mut script: Vec<Ev> = Vec::new();
      for (items, code) in segs {
        script.extend(items.into_iter().map(Ev::N));
        script.push(Ev::E(code));
      }
      match ending {
        0 => script.push(Ev::C),
        1 => script.push(Ev::E(7)),
        _ => {}
      }
      let src = Node::Nary(Comb::Merge, vec![Node::Src(0, Src::PerSub { scripts, polite }), Node::Src(0, Src::Hot(0))]);
      let mut root = match rec {
        0 | 1 | 2 => Node::Un(Op::Retry(n), Box::new(src)),
        _ => Node::Un(Op::RetryWhen(RPred::CodeLt(n as u32)), Box::new(src)),
      };
      gen::sanitize_tree(&mut root);
      let mut actions = vec![Action::Subscribe(0)];
      actions.extend(script.into_iter().map(|e| Action::Emit(0, e)));
      SeqCase {
        case: Case { root, hots: vec![HotKind::Harness], hot_illformed: false, conn: None, conn_take: None, conn_take_only: None, recorders: vec![vec![]], actions },
        hash_seed,
      }
    })
    .boxed()
}

fn c04_mixed_check(ctx: &Ctx, c: &SeqCase) -> Report {
  let mut rep = c04_check(ctx, c);
  // non-trivial: attempts failed both inside subscribe() and later
  let mut sync_fail = false;
  c.case.root.walk(&mut |n| {
    if let Node::Src(_, Src::PerSub { scripts, .. }) = n {
      sync_fail = scripts.iter().any(|s| matches!(s.last(), Some(Ev::E(_))));
    }
  });
  let late = c.case.actions.iter().filter(|a| matches!(a, Action::Emit(_, Ev::E(_)))).count();
  if sync_fail && late >= 1 {
    rep.classes.push("attempts-fail-inside-subscribe-and-later".into());
  }
  rep.nontrivial = rep.sample.is_some() && sync_fail && late >= 1;
  rep
}

fn c04_hot_check(ctx: &Ctx, c: &SeqCase) -> Report {
  let mut rep = c04_check(ctx, c);
  rep.classes.push(format!("source:{:?}", c.case.hots[0]).split('(').next().unwrap().to_string());
  let errors = c.case.actions.iter().filter(|a| matches!(a, Action::Emit(_, Ev::E(_)))).count();
  rep.nontrivial = rep.sample.is_some() && errors >= 1;
  if errors >= 2 {
    rep.classes.push("subject-errs-more-than-once".into());
  }
  rep
}

/// metamorphic: o.materialize().dematerialize() == o
fn c04_roundtrip_check(_ctx: &Ctx, c: &SeqCase) -> Report {
  let mut rep = Report::ok();
  rep.classes = op_classes(&c.case);
  let mut wrapped = c.clone();
  wrapped.case.root =
    Node::Un(Op::Dematerialize, Box::new(Node::Un(Op::Materialize, Box::new(c.case.root.clone()))));
  let a = run_seq(c);
  let b = run_seq(&wrapped);
  use arx_rt::Kind::*;
  if !matches!(a.outcome.kind, Done | Quiescent) || !matches!(b.outcome.kind, Done | Quiescent) {
    rep.classes.push("aborted".into());
    return rep;
  }
  let (ta, tb) = (a.trace(0), b.trace(0));
  rep.sample = Some(format!("{} => {} ; with materialize().dematerialize(): {}", c.case.show(), show_trace(&ta), show_trace(&tb)));
  rep.nontrivial = ta.len() >= 2;
  if ta.iter().any(|e| matches!(e, Rk::E(_))) {
    rep.classes.push("roundtrip-of-error".into());
  }
  if ta != tb {
    rep.fail = Some(format!(
      "o.materialize().dematerialize() differs from o: {} vs {} | {}",
      show_trace(&tb),
      show_trace(&ta),
      c.case.show()
    ));
  }
  rep
}

// ---------------------------------------------------------------------------------------
// C14

fn c14_cfg(ctx: &Ctx) -> CaseCfg {
  let mut exclude = known_excludes(ctx);
  exclude.push("sequence_equal".into());
  CaseCfg {
    gen: GenCfg {
      depth: ctx.tier.pick(3, 5),
      max_script: 5,
      nhot: 2,
      err_weight: 2,
      combine: true,
      recovery: true,
      exclude,
      ..GenCfg::default()
    },
    hot_kinds: vec![HotKind::Harness],
    max_rec: 3,
    reactions: true,
    ..CaseCfg::default()
  }
}

fn c14_strategy(ctx: &Ctx) -> BoxedStrategy<SeqCase> {
  // reactions: only nested subscribes (unsubscribe / re-entrant emission belong to C05 / C07)
  seq_strategy(c14_cfg(ctx))
    .prop_map(|mut c| {
      for r in c.case.recorders.iter_mut() {
        r.retain(|x| matches!(x.what, React::Subscribe(_)));
      }
      c
    })
    .boxed()
}

fn stateful(n: &Node) -> bool {
  n.has_op(&|x| match x {
    Node::Un(op, _) => !matches!(op, Op::Map(_) | Op::Filter(_) | Op::MapToAny | Op::Materialize),
    Node::Nary(_, _) | Node::Gate(_, _, _) | Node::FlatMap(_, _) | Node::Resume(_, _) => true,
    _ => false,
  })
}

pub(crate) fn c14_check(_ctx: &Ctx, c: &SeqCase) -> Report {
  let out = diff(c, DiffOpts { check_tap: true, check_factories: true, check_persub_counts: true, ..Default::default() });
  let mut rep = out.rep;
  if let Some(r) = &out.real {
    let subs = r.log.sub_marks.iter().filter(|m| m.is_some()).count();
    rep.nontrivial = subs >= 2 && stateful(&c.case.root);
    rep.classes.push(format!("subscriptions:{}", subs));
    if !r.log.reactions_fired.is_empty() {
      rep.classes.push("nested-subscribe".into());
    }
  }
  rep
}

// ---------------------------------------------------------------------------------------
// C06 inner endings

fn c06_inner_cfg(ctx: &Ctx) -> CaseCfg {
  let mut exclude = known_excludes(ctx);
  exclude.push("sequence_equal".into());
  CaseCfg {
    gen: GenCfg {
      depth: ctx.tier.pick(3, 5),
      max_script: 4,
      nhot: 3,
      err_weight: 2,
      combine: true,
      recovery: true,
      creation: false,
      exclude,
      ..GenCfg::default()
    },
    hot_kinds: vec![HotKind::Harness],
    hot_script: 4,
    ..CaseCfg::default()
  }
}

pub(crate) fn c06_inner_check(_ctx: &Ctx, c: &SeqCase) -> Report {
  let out = diff(c, DiffOpts::default());
  let mut rep = out.rep;
  if rep.fail.is_some() {
    // trace disagreements are C02-C04's business; here they only make the case unusable
    rep.classes.push("trace-mismatch(skipped)".into());
    rep.fail = None;
    return rep;
  }
  let (r, m) = match (&out.real, &out.model) {
    (Some(r), Some(m)) => (r, m),
    _ => return rep,
  };
  // pair the source subscriptions of both sides by (source id, subscription number)
  for mp in &m.probes {
    // only subscriptions the reference had ended *before* the sentinel round
    if mp.dead_before_sentinel != Some(true) {
      continue;
    }
    let cause = match mp.cause_before_sentinel {
      Some(c) => c,
      None => continue,
    };
    if !cause.listed() {
      continue;
    }
    let rp = match r.log.probes.iter().find(|p| p.sid == mp.sid && p.sub_no == mp.sub_no) {
      Some(p) => p,
      None => continue,
    };
    rep.classes.push(format!("disposed-by:{:?}", cause));
    if !matches!(cause, model::Cause::Unsub | model::Cause::Terminal) {
      rep.nontrivial = true;
    }
    // the reference disposed this source subscription: at its next emission attempt (the
    // sentinel round forces one on hot sources) the crate's observer must say so
    let sentinel_attempts: Vec<&Attempt> = rp.attempts.iter().filter(|a| a.stamp > r.log.sentinel_stamp).collect();
    // (the reference ends an amb loser when it first signals, so a loser that is dead
    // before the sentinel round has had its one undelivered attempt already)
    let tolerated = 0;
    let live_after: usize = {
      // attempts after the last attempt at which the reference still had it alive are not
      // reconstructed here; the sentinel round and the final probe are what is asserted
      sentinel_attempts.iter().filter(|a| a.was_subscribed).count()
    };
    let earlier_undelivered =
      rp.attempts.iter().filter(|a| a.stamp < r.log.sentinel_stamp && !a.was_subscribed).count();
    if live_after > tolerated || (live_after == 1 && tolerated == 1 && earlier_undelivered > 0) {
      rep.fail = Some(format!(
        "source #{} (subscription {}) was ended by {:?} but still sees is_subscribed()==true at its next emission attempt | {}",
        mp.sid, mp.sub_no, cause, render(c, r)
      ));
      return rep;
    }
    if sentinel_attempts.is_empty() && rp.final_sub {
      rep.fail = Some(format!(
        "source #{} (subscription {}) was ended by {:?} but its observer still reports is_subscribed()==true | {}",
        mp.sid, mp.sub_no, cause, render(c, r)
      ));
      return rep;
    }
  }
  rep
}

pub fn sub_c06_inner() -> Sub {
  mk_sub("inner", (1200, 25_000), |ctx| seq_strategy(c06_inner_cfg(ctx)), c06_inner_check)
}

pub fn properties() -> Vec<Property> {
  vec![
    Property {
      id: "C02",
      rule: "cases = one source (cold script of 0..8 items over -3..6 ending in complete / error / silence, or a creation function) under a chain of 1..4 (thorough 6) single-source operators (window_with_count / group_by seen through flat_map: all items tagged, counts per window, or with inner subscribers that leave after one item) with parameters 0..5 and functions from the fixed family; oracle = exact trace equality with the reference interpreter (+ tap log, defer/start factory calls); non-trivial = chain length >= 2 or a boundary parameter (0, 1, len-1, len, len+1) or an empty / erroring / silent input; large: the same chains (1..3 operators) over inputs of up to 60 scripted / 300 generated items with count parameters from {0..9, 10..70, 127..129, 255..257, 300, 65535, 65536, u32::MAX, u32::MAX+1, isize::MAX, isize::MAX+1, usize::MAX-1, usize::MAX}, non-trivial = size > 40",
      assumptions: vec!["reference interpreter harness/src/model.rs with the conventions of DESIGN.md 2.5", "take(0) follows the crate (completes at the first item)"],
      subs: vec![
        mk_sub("chains", (2000, 40_000), c02_strategy, c02_check),
        mk_sub("reentrant_source", (600, 12_000), c02_reentrant_strategy, c02_reentrant_check),
        mk_sub("large", (300, 6_000), c02_large_strategy, c02_large_check),
      ],
    },
    Property {
      id: "C03",
      rule: "cases = pipelines with merge / concat / zip / combine_latest / amb / take_until / skip_until / sample / flat_map nested with single-source operators over 0..3 hot sources (scripts interleaved by a generated order) and cold sources; oracle = exact trace equality with the reference; non-trivial = a combining operator is present and the driver order switches hot source at least once or hot and cold inputs are mixed; switch_on_next: two hot inputs, histories whose outcome no bookkeeping order can change (source items, the target's first item, a mix of both, the target's terminal), expected trace computed from the history; large: scripts of up to 30 items per input and the large count parameters of C02, non-trivial = size > 40",
      assumptions: vec!["inputs are subscribed left to right, triggers first (as the crate does)", "trigger errors / completions have no effect (RxJS reading)"],
      subs: vec![
        mk_sub("combine", (1500, 30_000), |ctx| seq_strategy(c03_cfg(ctx)).prop_map(single_reference_subjects).boxed(), c03_check),
        mk_sub("sequence_equal", (500, 10_000), c03_seq_eq_strategy, c03_seq_eq_check),
        mk_sub("ready_set_go", (300, 5_000), c03_rsg_strategy, c03_rsg_check),
        mk_sub("switch_on_next", (300, 5_000), c03_switch_strategy, c03_switch_check),
        mk_sub("large", (200, 4_000), |ctx| seq_strategy(large_case_cfg(c03_cfg(ctx))).prop_map(single_reference_subjects).boxed(), c03_large_check),
      ],
    },
    Property {
      id: "C04",
      rule: "cases = C02/C03 pipelines with error-heavy scripts (error at every position), retry(1..4), retry_when(never | code<k), on_error_resume_next with a table of resume pipelines, sources whose k-th subscription plays a different script; plus retry / retry_when / on_error_resume_next over a Subject (erring up to three times and going on), BehaviorSubject or ReplaySubject as the source, resubscribed from inside the subject's own error delivery; oracle = trace equality with the reference, error delivered once and last with the original payload type, subscription counts of per-subscription sources; metamorphic: o.materialize().dematerialize() == o; non-trivial = an error passed an operator after >= 1 item, or a resubscription happened; large: retry budgets up to 300 and long scripts; retry_mixed: retry(1..5) / retry_when(code<k) over merge(source whose k-th subscription fails inside subscribe() or stays silent, hot source whose errors fail the parked attempt later), subscription counts against the reference, non-trivial = attempts failed both ways",
      assumptions: vec!["retry(n): n or n+1 subscriptions accepted (convention vector)"],
      subs: vec![
        mk_sub("recovery", (1500, 30_000), |ctx| seq_strategy(c04_cfg(ctx)), c04_check),
        mk_sub("roundtrip", (800, 15_000), |ctx| seq_strategy(c04_cfg(ctx)), c04_roundtrip_check),
        mk_sub("subject_source", (800, 15_000), c04_hot_strategy, c04_hot_check),
        mk_sub("large", (200, 4_000), |ctx| seq_strategy(large_case_cfg(c04_cfg(ctx))), c04_large_check),
        mk_sub("retry_mixed", (500, 10_000), c04_mixed_strategy, c04_mixed_check),
      ],
    },
    Property {
      id: "C14",
      rule: "cases = C02-C04 pipelines subscribed by 2..3 recorders: one after another, interleaved on hot sources (second joins mid-stream), nested (second subscribe from inside a callback of the first); oracle = every subscriber's trace equals the reference trace of an independent subscription, tap log and factory calls per subscription; non-trivial = >= 2 subscriptions to a pipeline with a stateful operator; large: up to 12 recorders, scripts of up to 30 items, large count parameters; conc: a chain of 1..3 single-source operators over a synchronous source, subscribed by two threads at the same time under a generated schedule - each receives what a subscriber on its own receives, non-trivial = the two subscribe calls overlapped",
      assumptions: vec!["harness hot sources serve observers in subscription order on both sides"],
      subs: vec![
        mk_sub("resubscribe", (1500, 30_000), c14_strategy, c14_check),
        mk_sub("large", (200, 4_000), c14_large_strategy, c14_large_check),
        super::conc::sub_c14_conc(),
      ],
    },
  ]
}
