//! C07: no call into the library blocks for ever. Oracle = the runtime's verdict (deadlock
//! incl. self-deadlock, step budget = livelock / endless producer, fuel) plus "every
//! harness call returned".

use super::conc::{self, render_cc, run_cc, ConcCase};
use super::seq_inv::{op_classes, render, run_seq, seq_strategy, SeqCase};
use super::*;
use crate::ast::*;
use crate::gen::{CaseCfg, GenCfg};
use crate::real::*;
use proptest::prelude::*;

fn verdict(r: &RunResult) -> Option<String> {
  use arx_rt::Kind::*;
  match r.outcome.kind {
    Deadlock => Some(format!(
      "deadlock: {} (blocked in: {})",
      r.outcome.describe(),
      r.log.in_call.clone().unwrap_or_else(|| format!("{:?}", r.log.open_calls))
    )),
    StepBudget | FuelExhausted => Some(format!(
      "{:?}: a thread kept spinning (in: {})",
      r.outcome.kind,
      r.log.in_call.clone().unwrap_or_else(|| format!("{:?}", r.log.open_calls))
    )),
    Panic => None,
    Done | Quiescent => {
      if !r.outcome.main_finished() || !r.log.epilogue_done {
        Some(format!("a call did not return: {:?} {:?}", r.log.in_call, r.log.open_calls))
      } else {
        None
      }
    }
  }
}

fn known_excludes(ctx: &Ctx) -> Vec<String> {
  let mut v = Vec::new();
  for (sw, op) in [
    ("no_ref_count", "ref_count"),
    ("no_replay_conn", "replay_conn"),
    ("no_scan", "scan"),
    ("no_window", "window"),
    ("no_group_by", "group_by"),
  ] {
    if ctx.excl(sw) {
      v.push(op.to_string());
    }
  }
  v
}

fn seq_cfg(ctx: &Ctx, reentrant: bool) -> CaseCfg {
  let mut hot_kinds = vec![HotKind::Harness, HotKind::Subject, HotKind::Async];
  if !(reentrant && ctx.excl("no_reentrant_behavior_replay")) {
    hot_kinds.push(HotKind::Behavior(0));
    hot_kinds.push(HotKind::Replay);
  }
  CaseCfg {
    gen: GenCfg {
      depth: ctx.tier.pick(3, 5),
      nhot: 2,
      combine: true,
      recovery: true,
      unbounded: true,
      sched_default: true,
      switch: true,
      connectable: !ctx.excl("no_connectable_in_pipelines"),
      exclude: known_excludes(ctx),
      ..GenCfg::default()
    },
    hot_kinds,
    max_rec: 2,
    unsub: true,
    reactions: reentrant,
    ..CaseCfg::default()
  }
}

fn seq_check(_ctx: &Ctx, c: &SeqCase) -> Report {
  let r = run_seq(c);
  let mut rep = Report::ok();
  rep.classes = op_classes(&c.case);
  rep.classes.push(format!("outcome:{:?}", r.outcome.kind));
  rep.sample = Some(render(c, &r));
  // non-trivial (re-entrancy): a reaction actually fired
  rep.nontrivial = !r.log.reactions_fired.is_empty() || c.case.root.size() >= 3;
  for (k, ri) in &r.log.reactions_fired {
    rep.classes.push(format!("reaction:{}", match &c.case.recorders[*k][*ri].what {
      React::UnsubSelf => "unsubscribe-self",
      React::Emit(_, Ev::N(_)) => "emit-item",
      React::Emit(_, _) => "emit-terminal",
      React::Subscribe(_) => "subscribe",
    }));
  }
  if let Some(m) = verdict(&r) {
    rep.fail = Some(format!("{} | {}", m, render(c, &r)));
  }
  rep
}

fn conc_check(r: &RunResult, cc: &ConcCase) -> Report {
  let mut rep = Report::ok();
  rep.classes = op_classes(&cc.case);
  rep.classes.push(format!("outcome:{:?}", r.outcome.kind));
  rep.sample = Some(render_cc(cc, r));
  // non-trivial: the schedule really interleaved the threads
  rep.nontrivial = r.outcome.switches >= 4;
  if let Some(m) = verdict(r) {
    rep.fail = Some(format!("{} | {}", m, render_cc(cc, r)));
  }
  rep
}

pub fn properties() -> Vec<Property> {
  vec![Property {
    id: "C07",
    rule: "A: the sequential pipelines / histories of C01-C06, C10 (all operator families, hot sources incl. the four subjects, unsubscribe at generated positions); B: the same with re-entrant reactions (unsubscribe own subscription, emit an item / a terminal into a hot source or subject from inside a callback, subscribe from inside a callback); C: the concurrent scenario generators of C05, C09, C11, C12, C19 under generated schedules (<= 4 threads); oracle = the runtime never reports a deadlock (incl. a thread waiting for a lock it holds), a step-budget / fuel exhaustion, or a call that did not return; non-trivial = a reaction fired or the pipeline has >= 3 nodes (A, B), >= 4 thread switches (C)",
    assumptions: vec![
      "lock model = writer-preferring futex RwLock (a recursive read deadlocks when a writer is queued)",
      "budgets: 60 000 scheduling points / 60 000 fuel units per sequential case (legitimate cases need < 3 000)",
    ],
    subs: vec![
      mk_sub("seq", (1500, 30_000), |ctx| seq_strategy(seq_cfg(ctx, false)), seq_check),
      mk_sub("reentrant", (1500, 30_000), |ctx| seq_strategy(seq_cfg(ctx, true)), seq_check),
      mk_sub("conc_unsub", (400, 8_000), conc::c05_plain_strategy, |_ctx, c: &conc::C05Case| conc_check(&run_cc(&c.cc, 100), &c.cc)),
      mk_sub("conc_sched", (300, 6_000), |ctx| conc::c09_strategy(ctx, false), |_ctx, c: &conc::C09Case| conc_check(&run_cc(&c.cc, 5_000), &c.cc)),
      mk_sub("conc_combine", (400, 8_000), conc::c11_strategy, |_ctx, c: &conc::C11Case| conc_check(&run_cc(&c.cc, 2_000), &c.cc)),
      mk_sub("conc_subjects", (400, 8_000), conc::c12_strategy, |_ctx, c: &conc::C12Case| conc_check(&run_cc(&c.cc, 100), &c.cc)),
      mk_sub("conc_races", (400, 8_000), conc::c19_strategy, |_ctx, c: &conc::C19Case| conc_check(&run_cc(&c.cc, 2_000), &c.cc)),
    ],
  }]
}
