//! C07: no call into the library blocks for ever. Oracle = the runtime's verdict (deadlock
//! incl. self-deadlock, step budget = livelock / endless producer, fuel) plus "every
//! harness call returned".

use super::conc::{self, render_cc, run_cc, ConcCase};
use super::seq_inv::{op_classes, render, run_seq, seq_strategy, SeqCase};
use super::*;
use crate::ast::*;
use crate::gen::{CaseCfg, GenCfg};
use crate::real::*;
use proptest::prelude::*;

fn verdict(r: &RunResult) -> Option<String> {
  use arx_rt::Kind::*;
  match r.outcome.kind {
    Deadlock => Some(format!(
      "deadlock: {} (blocked in: {})",
      r.outcome.describe(),
      r.log.in_call.clone().unwrap_or_else(|| format!("{:?}", r.log.open_calls))
    )),
    StepBudget | FuelExhausted => Some(format!(
      "{:?}: a thread kept spinning (in: {})",
      r.outcome.kind,
      r.log.in_call.clone().unwrap_or_else(|| format!("{:?}", r.log.open_calls))
    )),
    Panic => None,
    Done | Quiescent => {
      if !r.outcome.main_finished() || !r.log.epilogue_done {
        Some(format!("a call did not return: {:?} {:?}", r.log.in_call, r.log.open_calls))
      } else {
        None
      }
    }
  }
}

fn known_excludes(ctx: &Ctx) -> Vec<String> {
  let mut v = Vec::new();
  for (sw, op) in [
    ("no_ref_count", "ref_count"),
    ("no_replay_conn", "replay_conn"),
    ("no_scan", "scan"),
    ("no_window", "window"),
    ("no_group_by", "group_by"),
  ] {
    if ctx.excl(sw) {
      v.push(op.to_string());
    }
  }
  v
}

fn seq_cfg(ctx: &Ctx, reentrant: bool) -> CaseCfg {
  let mut hot_kinds = vec![HotKind::Harness, HotKind::Subject, HotKind::Async];
  if !(reentrant && ctx.excl("no_reentrant_behavior_replay")) {
    hot_kinds.push(HotKind::Behavior(0));
    hot_kinds.push(HotKind::Replay);
  }
  CaseCfg {
    gen: GenCfg {
      depth: ctx.tier.pick(3, 5),
      nhot: 2,
      combine: true,
      recovery: true,
      unbounded: true,
      sched_default: true,
      switch: true,
      connectable: !ctx.excl("no_connectable_in_pipelines"),
      exclude: known_excludes(ctx),
      ..GenCfg::default()
    },
    hot_kinds,
    max_rec: 2,
    unsub: true,
    reactions: reentrant,
    ..CaseCfg::default()
  }
}

fn seq_check(_ctx: &Ctx, c: &SeqCase) -> Report {
  let r = run_seq(c);
  let mut rep = Report::ok();
  rep.classes = op_classes(&c.case);
  rep.classes.push(format!("outcome:{:?}", r.outcome.kind));
  rep.sample = Some(render(c, &r));
  // non-trivial (re-entrancy): a reaction actually fired
  rep.nontrivial = !r.log.reactions_fired.is_empty() || c.case.root.size() >= 3;
  for (k, ri) in &r.log.reactions_fired {
    rep.classes.push(format!("reaction:{}", match &c.case.recorders[*k][*ri].what {
      React::UnsubSelf => "unsubscribe-self",
      React::Emit(_, Ev::N(_)) => "emit-item",
      React::Emit(_, _) => "emit-terminal",
      React::Subscribe(_) => "subscribe",
    }));
  }
  if let Some(m) = verdict(&r) {
    use arx_rt::Kind::*;
    if matches!(r.outcome.kind, StepBudget | FuelExhausted) && super::seq_inv::small_by_reference(c) == Some(false) {
      rep.classes.push("large-case(budget not judged)".into());
      return rep;
    }
    rep.fail = Some(format!("{} | {}", m, render(c, &r)));
  }
  rep
}

fn conc_check(r: &RunResult, cc: &ConcCase) -> Report {
  let mut rep = Report::ok();
  rep.classes = op_classes(&cc.case);
  rep.classes.push(format!("outcome:{:?}", r.outcome.kind));
  rep.sample = Some(render_cc(cc, r));
  // non-trivial: the schedule really interleaved the threads
  rep.nontrivial = r.outcome.switches >= 4;
  if let Some(m) = verdict(r) {
    rep.fail = Some(format!("{} | {}", m, render_cc(cc, r)));
  }
  rep
}

/// utils::ready_set_go under retry: the action pushes an error into the hot source, and the
/// retry re-subscribes the same ready_set_go observable from inside that error delivery -
/// i.e. from inside the first subscription's action
fn rsg_retry_strategy(ctx: &Ctx) -> BoxedStrategy<SeqCase> {
  (super::diff::c03_rsg_strategy(ctx), 1usize..=3)
    .prop_map(|(mut c, n)| {
      let root = std::mem::replace(&mut c.case.root, Node::Src(0, Src::Empty));
      c.case.root = Node::Un(Op::Retry(n), Box::new(root));
      c.case.root.renumber();
      c
    })
    .boxed()
}

/// re-entrancy on the library's own threads: callbacks that run on a timer / scheduler worker
/// (debounce, delay, timeout, interval, observe_on) push items into the source, unsubscribe
/// or subscribe again
fn timed_reentrant_check(_ctx: &Ctx, c: &super::timed::TimedCase) -> Report {
  let r = super::timed::run_timed(c);
  let mut rep = Report::ok();
  rep.classes = op_classes(&c.case);
  rep.classes.push(format!("outcome:{:?}", r.outcome.kind));
  rep.sample = Some(super::timed::render_t(c, &r));
  rep.nontrivial = !r.log.reactions_fired.is_empty();
  for (k, ri) in &r.log.reactions_fired {
    rep.classes.push(format!("reaction:{}", match &c.case.recorders[*k][*ri].what {
      React::UnsubSelf => "unsubscribe-self",
      React::Emit(_, Ev::N(_)) => "emit-item",
      React::Emit(_, _) => "emit-terminal",
      React::Subscribe(_) => "subscribe",
    }));
  }
  // a timer that is still subscribed at the end keeps ticking: only blocking counts here
  if r.outcome.kind == arx_rt::Kind::Deadlock {
    rep.fail = Some(format!("deadlock: {} | {}", r.outcome.describe(), super::timed::render_t(c, &r)));
  }
  rep
}

// ---------------------------------------------------------------------------------------
// re-entrancy from the *outer* callback of window_with_count / group_by (the callback that
// receives the inner observable), and from scheduler tasks

#[derive(Clone, Debug, serde::Serialize, serde::Deserialize)]
pub struct GroupCase {
  /// 0 = group_by(x mod k), 1 = window_with_count(k)
  pub op: u8,
  pub k: u8,
  pub items: Vec<i64>,
  /// what the outer callback does on the n-th inner observable: 0 nothing, 1 emit an item
  /// into the source, 2 complete the source, 3 unsubscribe the outer subscription
  pub outer_action: u8,
  pub outer_at: u8,
  pub outer_value: i64,
  /// what the inner callback does on its first item: as above
  pub inner_action: u8,
  pub inner_value: i64,
  pub kind: u8,
}

fn group_strategy(_ctx: &Ctx) -> BoxedStrategy<GroupCase> {
  (0u8..=1, 1u8..=3, prop::collection::vec(0i64..6, 1..=5), 0u8..=3, 0u8..=2, 0i64..6, 0u8..=3, 0i64..6, 0u8..=2)
    .prop_map(|(op, k, items, outer_action, outer_at, outer_value, inner_action, inner_value, kind)| GroupCase {
      op,
      k,
      items,
      outer_action,
      outer_at,
      outer_value,
      inner_action,
      inner_value,
      kind,
    })
    .boxed()
}

fn group_check(_ctx: &Ctx, c: &GroupCase) -> Report {
  use crate::val::{CaseCtx, P, V};
  use rx_inst::prelude::*;
  use std::sync::atomic::{AtomicUsize, Ordering};
  use std::sync::{Arc, Mutex};
  let c2 = c.clone();
  let progress = Arc::new(Mutex::new(String::new()));
  let p2 = progress.clone();
  let cfg = arx_rt::Config { schedule: Default::default(), max_steps: 60_000, fuel: 60_000 };
  let out = crate::real::rt_run(cfg, move || {
    let ctx = CaseCtx::new();
    // the source: a Subject / BehaviorSubject / ReplaySubject the callbacks can call back into
    let subject = rx_inst::subjects::subject::Subject::<V>::new();
    let behavior = rx_inst::subjects::behavior_subject::BehaviorSubject::<V>::new(V::new(&ctx, P::I(0)));
    let replay = rx_inst::subjects::replay_subject::ReplaySubject::<V>::new();
    let kind = c2.kind;
    let (s1, b1, r1) = (subject.clone(), behavior.clone(), replay.clone());
    let push = Arc::new(move |ev: Option<V>| match (kind, ev) {
      (0, Some(v)) => s1.next(v),
      (0, None) => s1.complete(),
      (1, Some(v)) => b1.next(v),
      (1, None) => b1.complete(),
      (_, Some(v)) => r1.next(v),
      (_, None) => r1.complete(),
    });
    let source: Observable<'static, V> = match kind {
      0 => subject.observable(),
      1 => behavior.observable(),
      _ => replay.observable(),
    };
    let k = c2.k.max(1);
    let grouped: Observable<'static, Observable<'static, V>> = if c2.op == 0 {
      source.group_by(move |v: V| v.p.as_i64().rem_euclid(k as i64))
    } else {
      source.window_with_count(k as usize)
    };
    let outer_sub: Arc<Mutex<Option<Subscription<'static>>>> = Arc::new(Mutex::new(None));
    let n_outer = Arc::new(AtomicUsize::new(0));
    let (push_o, osub, ctx_o, c3) = (push.clone(), outer_sub.clone(), ctx.clone(), c2.clone());
    let act = Arc::new(move |action: u8, value: i64, push: &Arc<dyn Fn(Option<V>) + Send + Sync>, osub: &Arc<Mutex<Option<Subscription<'static>>>>, ctx: &Arc<CaseCtx>| {
      arx_rt::burn(1);
      match action {
        1 => push(Some(V::new(ctx, P::I(value)))),
        2 => push(None),
        3 => {
          let s = osub.lock().unwrap().clone();
          if let Some(s) = s {
            s.unsubscribe();
          }
        }
        _ => {}
      }
    });
    let push_dyn: Arc<dyn Fn(Option<V>) + Send + Sync> = push_o;
    let (act_o, push_dyn_o) = (act.clone(), push_dyn.clone());
    // the inner reaction fires once per case (a reaction per window would make
    // window_with_count(1) an endless loop of the scenario's own making)
    let first = Arc::new(AtomicUsize::new(0));
    let sub = grouped.subscribe(
      move |inner: Observable<'static, V>| {
        let n = n_outer.fetch_add(1, Ordering::SeqCst);
        let first = first.clone();
        let (act_i, push_i, osub_i, ctx_i, c4) = (act_o.clone(), push_dyn_o.clone(), osub.clone(), ctx_o.clone(), c3.clone());
        inner.subscribe(
          move |_v: V| {
            if first.fetch_add(1, Ordering::SeqCst) == 0 {
              act_i(c4.inner_action, c4.inner_value, &push_i, &osub_i, &ctx_i);
            }
          },
          |_e| {},
          || {},
        );
        if n == c3.outer_at as usize {
          act_o(c3.outer_action, c3.outer_value, &push_dyn_o, &osub, &ctx_o);
        }
      },
      |_e| {},
      || {},
    );
    *outer_sub.lock().unwrap() = Some(sub);
    for (i, v) in c2.items.iter().enumerate() {
      *p2.lock().unwrap() = format!("pushing item #{} ({})", i, v);
      push_dyn(Some(V::new(&ctx, P::I(*v))));
    }
    *p2.lock().unwrap() = "completing".into();
    push_dyn(None);
    *p2.lock().unwrap() = "done".into();
  });
  let mut rep = Report::ok();
  let prog = progress.lock().unwrap().clone();
  rep.sample = Some(format!("{:?} => {} ({})", c, out.describe(), prog));
  rep.classes.push(format!("op:{}", if c.op == 0 { "group_by" } else { "window_with_count" }));
  rep.classes.push(format!("outer-action:{}", c.outer_action));
  rep.classes.push(format!("inner-action:{}", c.inner_action));
  rep.nontrivial = c.outer_action != 0 || c.inner_action != 0;
  use arx_rt::Kind::*;
  match out.kind {
    Done | Quiescent if out.main_finished() => {}
    Panic => {}
    _ => {
      rep.fail = Some(format!("{} while {} | {:?}", out.describe(), prog, c));
    }
  }
  rep
}

pub fn properties() -> Vec<Property> {
  vec![Property {
    id: "C07",
    rule: "A: the sequential pipelines / histories of C01-C06, C10 (all operator families, hot sources incl. the four subjects, unsubscribe at generated positions); B: the same with re-entrant reactions (unsubscribe own subscription, emit an item / a terminal into a hot source or subject from inside a callback, subscribe from inside a callback); C: the concurrent scenario generators of C05, C09, C11, C12, C19 under generated schedules (<= 4 threads); oracle = the runtime never reports a deadlock (incl. a thread waiting for a lock it holds), a step-budget / fuel exhaustion, or a call that did not return; non-trivial = a reaction fired or the pipeline has >= 3 nodes (A, B), >= 4 thread switches (C)",
    assumptions: vec![
      "lock model = writer-preferring futex RwLock (a recursive read deadlocks when a writer is queued)",
      "budgets: 60 000 scheduling points / 60 000 fuel units per sequential case (legitimate cases need < 3 000)",
    ],
    subs: vec![
      mk_sub("seq", (1500, 30_000), |ctx| seq_strategy(seq_cfg(ctx, false)), seq_check),
      mk_sub("reentrant", (1500, 30_000), |ctx| seq_strategy(seq_cfg(ctx, true)), seq_check),
      mk_sub("reentrant_groups", (1500, 30_000), group_strategy, group_check),
      mk_sub("rsg_retry", (300, 6_000), rsg_retry_strategy, seq_check),
      mk_sub("reentrant_timed", (600, 12_000), |ctx| super::timed::timed_strategy(ctx, true), timed_reentrant_check),
      mk_sub("conc_unsub", (400, 8_000), conc::c05_plain_strategy, |_ctx, c: &conc::C05Case| conc_check(&run_cc(&c.cc, 100), &c.cc)),
      mk_sub("conc_sched", (300, 6_000), |ctx| conc::c09_strategy(ctx, false), |_ctx, c: &conc::C09Case| conc_check(&run_cc(&c.cc, 5_000), &c.cc)),
      mk_sub("conc_combine", (400, 8_000), conc::c11_strategy, |_ctx, c: &conc::C11Case| conc_check(&run_cc(&c.cc, 2_000), &c.cc)),
      mk_sub("conc_subjects", (400, 8_000), conc::c12_strategy, |_ctx, c: &conc::C12Case| conc_check(&run_cc(&c.cc, 100), &c.cc)),
      mk_sub("conc_races", (400, 8_000), conc::c19_strategy, |_ctx, c: &conc::C19Case| conc_check(&run_cc(&c.cc, 2_000), &c.cc)),
    ],
  }]
}
