//! C15 (worker threads exit) and C16 (time) on the virtual clock.

use super::conc::sched_strategy;
use super::seq_inv::op_classes;
use super::*;
use crate::ast::*;
use crate::engine::SchedJson;
use crate::gen::{self, CaseCfg, GenCfg};
use crate::real::*;
use crate::val::*;
use proptest::prelude::*;
use serde::{Deserialize, Serialize};

#[derive(Clone, Debug, Serialize, Deserialize)]
pub struct TimedCase {
  pub case: Case,
  pub sched: SchedJson,
}

const MS: u64 = 1_000_000;

pub fn run_timed(c: &TimedCase) -> RunResult {
  let cfg = arx_rt::Config { schedule: c.sched.to_schedule(), max_steps: 100_000, fuel: 200_000 };
  run_case(&c.case, cfg, RunOpts { settle: true, final_wait_ms: 10_000, drain_ms: 0, sentinel: false })
}

pub fn render_t(c: &TimedCase, r: &RunResult) -> String {
  let traces: Vec<String> = (0..r.log.recs.len())
    .map(|k| {
      let t: Vec<String> = r.log.recs[k].iter().map(|e| format!("{}@{}ms", e.k.show(), e.vt as f64 / MS as f64)).collect();
      format!("r{}=<{}>", k, t.join(" "))
    })
    .collect();
  let th: Vec<String> = r
    .outcome
    .threads
    .iter()
    .filter(|t| t.lib)
    .map(|t| format!("{}:{}", t.name, t.finished_at.map_or("alive".to_string(), |x| format!("{}ms", x as f64 / MS as f64))))
    .collect();
  format!("{} sched={{ov:{:?},walk:{:?}}} => {} threads=[{}] [{}]", c.case.show(), c.sched.overrides, c.sched.walk, traces.join(" "), th.join(" "), r.outcome.describe())
}

fn periods(n: &Node) -> Vec<u64> {
  let mut v = Vec::new();
  n.walk(&mut |x| match x {
    Node::Src(_, Src::Interval(d)) | Node::Src(_, Src::Timer(d)) => v.push(*d),
    Node::Un(Op::Delay(d), _) | Node::Un(Op::Debounce(d), _) | Node::Un(Op::Timeout(d), _) => v.push(*d),
    _ => {}
  });
  v
}

// ---------------------------------------------------------------------------------------
// C15

fn c15_strategy(ctx: &Ctx) -> BoxedStrategy<TimedCase> {
  timed_strategy(ctx, false)
}

/// pipelines over timers, timed operators and new-thread schedulers, driven on the virtual
/// clock; `reactions`: the subscriber's callbacks (which run on the library's worker threads
/// here) push items into the hot source, unsubscribe or subscribe again (used by C07)
pub fn timed_strategy(ctx: &Ctx, reactions: bool) -> BoxedStrategy<TimedCase> {
  let cfg = CaseCfg {
    gen: GenCfg {
      depth: ctx.tier.pick(2, 3),
      max_nodes: 8,
      max_script: 3,
      nhot: 1,
      err_weight: 2,
      single: false,
      combine: true,
      recovery: false,
      creation: false,
      sched_new: true,
      timed: true,
      // publish().ref_count() / replay().ref_count() over timers: the connection (and with it
      // the timer's thread) ends with the last subscriber
      connectable: true,
      window_group: false,
      exclude: vec!["zip".into(), "combine_latest".into(), "sequence_equal".into(), "concat".into(), "flat_map".into(), "skip_until".into(), "sample".into()],
      ..GenCfg::default()
    },
    hot_kinds: vec![HotKind::Harness],
    max_rec: 2,
    unsub: true,
    advance: true,
    reactions,
    hot_script: 3,
    ..CaseCfg::default()
  };
  // early-finish operators downstream (take / first) with raised probability
  let tail = prop_oneof![
    3 => Just(None),
    2 => (1usize..=3).prop_map(|n| Some(Op::Take(n))),
    1 => Just(Some(Op::First)),
    1 => Just(Some(Op::Retry(2))),
  ];
  (gen::case(&cfg), tail, sched_strategy())
    .prop_map(|(mut case, tail, sched)| {
      if let Some(op) = tail {
        case.root = Node::Un(op, Box::new(case.root.clone()));
        case.root.renumber();
      }
      // unbounded timers need time to pass: make sure the driver advances the clock
      case.actions.push(Action::Advance(30));
      TimedCase { case, sched }
    })
    .boxed()
}

fn c15_check(_ctx: &Ctx, c: &TimedCase) -> Report {
  let r = run_timed(c);
  let mut rep = Report::ok();
  rep.classes = op_classes(&c.case);
  rep.sample = Some(render_t(c, &r));
  let fail = |m: String| Some(format!("{} | {}", m, render_t(c, &r)));
  use arx_rt::Kind::*;
  match r.outcome.kind {
    Done | Quiescent => {}
    StepBudget | FuelExhausted => {
      // every subscription is ended by the epilogue at the latest: a thread that is still
      // busy 100 000 scheduling points later never stops
      rep.fail = fail(format!("a library thread keeps running after every subscription ended ({:?})", r.outcome.kind));
      return rep;
    }
    ref k => {
      rep.classes.push(format!("aborted:{:?}", k));
      return rep;
    }
  }
  if !r.log.epilogue_done {
    return rep;
  }
  let nlib = r.outcome.threads.iter().filter(|t| t.lib).count();
  rep.classes.push(format!("lib-threads:{}", nlib.min(5)));
  // non-trivial: a subscription ended while a library thread was alive
  rep.nontrivial = nlib >= 1;
  // end of the last subscription in virtual time
  let mut end_vt = 0u64;
  for (k, evs) in r.log.recs.iter().enumerate() {
    if r.log.sub_marks[k].is_none() {
      continue;
    }
    let t = evs.iter().find(|e| e.k.is_terminal()).map(|e| e.vt);
    let forced = r.log.force_unsubscribed.contains(&k);
    let e = match (t, forced) {
      (Some(t), _) => t,
      (None, _) => r.log.final_unsub_vt,
    };
    end_vt = end_vt.max(e);
  }
  let bound: u64 = periods(&c.case.root).iter().sum::<u64>() * MS;
  for t in r.outcome.threads.iter().filter(|t| t.lib) {
    match t.finished_at {
      None => {
        rep.fail = fail(format!(
          "library thread {} is still alive {} ms (virtual) after every subscription ended ({})",
          t.name,
          10_000,
          t.wait
        ));
        return rep;
      }
      Some(f) => {
        // (+ 0.1 ms: under schedules with a thread start latency every thread runs a
        // microsecond late)
        // ("of its own steps": a thread that the library started only after the last
        // subscription had ended - e.g. ref_count finishing a synchronous connect whose
        // subscriber left meanwhile - is measured from its start)
        if f > end_vt.max(t.spawned_at) + bound + 100_000 {
          rep.fail = fail(format!(
            "library thread {} finished at {} ms, more than the timer periods ({} ms) after the last subscription ended at {} ms",
            t.name,
            f / MS,
            bound / MS,
            end_vt / MS
          ));
          return rep;
        }
      }
    }
  }
  rep
}

// ---------------------------------------------------------------------------------------
// C16

#[derive(Clone, Debug, Serialize, Deserialize)]
pub struct C16Case {
  pub kind: String,
  pub d: u64,
  pub gaps: Vec<u64>,
  /// how the source ends: 0 complete, 1 silent
  pub ending: u8,
  pub n: usize,
  /// the same observable value is subscribed a second time after the first subscription was
  /// ended; the script is played again
  #[serde(default)]
  pub second: bool,
  /// two subscriptions of the same observable value alive at the same time (timeout, sample,
  /// debounce over the hot source): each is judged by itself
  #[serde(default)]
  pub both: bool,
  pub sched: SchedJson,
}

fn c16_strategy(_ctx: &Ctx) -> BoxedStrategy<C16Case> {
  let kinds = prop::sample::select(vec![
    "interval", "interval_unsub", "timer", "delay", "timeout", "timeout_slow", "sample", "debounce", "time_interval",
    "interval_default", "timer_default", "timer_zero", "interval_slow", "interval_us", "timer_us",
  ]);
  (
    kinds,
    prop::sample::select(vec![10u64, 25]),
    prop::collection::vec(prop::sample::select(vec![3u64, 7, 9, 11, 15, 40]), 1..=5),
    0u8..=1,
    1usize..=4,
    sched_strategy(),
    prop::bool::weighted(0.3),
  )
    .prop_map(|(kind, d, gaps, ending, n, sched, second)| {
      // (a second round needs a first one that leaves the hot source alive, and a subscribe
      // call that returns: not the kinds that run inside subscribe or are unsubscribed by
      // the script itself)
      let second = second && !matches!(kind, "interval_unsub" | "interval_default" | "timer_default" | "interval_slow" | "interval_us" | "timer_us");
      // (instead of a second round: both subscriptions at once, for the operators that do not
      // hold the emitting thread)
      let both = second && n % 2 == 0 && matches!(kind, "timeout" | "sample" | "debounce");
      let second = second && !both;
      C16Case { kind: kind.to_string(), d, gaps, ending: if second { 1 } else { ending }, n, second, both, sched }
    })
    .boxed()
}

/// a period that is not a whole number of milliseconds (microseconds), picked by the case
fn sub_ms_period(c: &C16Case) -> u64 {
  [900u64, 2_900, 10_500, 25_250][(c.d as usize + c.gaps[0] as usize) % 4]
}

fn c16_build(c: &C16Case) -> Case {
  let hot = Node::Src(0, Src::Hot(0));
  let mut actions = vec![Action::Subscribe(0)];
  let emit_script = |actions: &mut Vec<Action>| {
    for (i, g) in c.gaps.iter().enumerate() {
      actions.push(Action::Advance(*g));
      actions.push(Action::Emit(0, Ev::N(i as i64)));
    }
  };
  let mut root = match c.kind.as_str() {
    "interval" => {
      actions.push(Action::Advance(c.d * (c.n as u64 + 2)));
      Node::Un(Op::Take(c.n), Box::new(Node::Src(0, Src::Interval(c.d))))
    }
    "interval_us" => {
      let us = sub_ms_period(c);
      actions.push(Action::Advance(us * (c.n as u64 + 2) / 1000 + 1));
      Node::Un(Op::Take(c.n), Box::new(Node::Src(0, Src::IntervalUs(us))))
    }
    "timer_us" => {
      let us = sub_ms_period(c);
      actions.push(Action::Advance(us * 3 / 1000 + 1));
      Node::Src(0, Src::TimerUs(us))
    }
    "interval_slow" => {
      // a subscriber that takes gaps[0] ms for every tick (delay downstream holds the
      // ticking thread that long): shorter or longer than the period
      actions.push(Action::Advance((c.d + c.gaps[0]) * (c.n as u64 + 2)));
      Node::Un(Op::Take(c.n), Box::new(Node::Un(Op::Delay(c.gaps[0]), Box::new(Node::Src(0, Src::Interval(c.d))))))
    }
    "interval_unsub" => {
      // unsubscribe strictly between two ticks
      actions.push(Action::Advance(c.d * c.n as u64 + 3));
      actions.push(Action::Unsub(0));
      actions.push(Action::Advance(c.d * 3));
      Node::Src(0, Src::Interval(c.d))
    }
    "timer" => {
      actions.push(Action::Advance(c.d * 3));
      Node::Src(0, Src::Timer(c.d))
    }
    // on the default scheduler subscribe() itself runs the timer and returns when it is over
    "interval_default" => Node::Un(Op::Take(c.n), Box::new(Node::Src(0, Src::IntervalDefault(c.d)))),
    "timer_default" => Node::Src(0, Src::TimerDefault(c.d)),
    // a period shorter than anything else that takes time (thread start-up)
    "timer_zero" => {
      actions.push(Action::Advance(5));
      Node::Src(0, Src::Timer(0))
    }
    "delay" => {
      emit_script(&mut actions);
      if c.ending == 0 {
        actions.push(Action::Advance(2));
        actions.push(Action::Emit(0, Ev::C));
      }
      Node::Un(Op::Delay(c.d), Box::new(hot))
    }
    "timeout" => {
      emit_script(&mut actions);
      if c.ending == 0 {
        actions.push(Action::Advance(c.gaps[0]));
        actions.push(Action::Emit(0, Ev::C));
      }
      actions.push(Action::Advance(c.d * 3));
      Node::Un(Op::Timeout(c.d), Box::new(hot))
    }
    "timeout_slow" => {
      // a subscriber that takes (virtual) time for every item: delay(5) downstream
      emit_script(&mut actions);
      if c.ending == 0 {
        actions.push(Action::Advance(c.gaps[0]));
        actions.push(Action::Emit(0, Ev::C));
      }
      actions.push(Action::Advance(c.d * 3));
      Node::Un(Op::Delay(5), Box::new(Node::Un(Op::Timeout(c.d), Box::new(hot))))
    }
    "sample" => {
      emit_script(&mut actions);
      actions.push(Action::Advance(c.d * 2));
      if c.ending == 0 {
        actions.push(Action::Emit(0, Ev::C));
      }
      Node::Gate(Gate::Sample, Box::new(hot), Box::new(Node::Src(0, Src::Interval(c.d))))
    }
    "debounce" => {
      emit_script(&mut actions);
      actions.push(Action::Advance(c.d * 2));
      if c.ending == 0 {
        actions.push(Action::Emit(0, Ev::C));
      }
      Node::Un(Op::Debounce(c.d), Box::new(hot))
    }
    _ => {
      emit_script(&mut actions);
      if c.ending == 0 {
        actions.push(Action::Advance(c.gaps[0]));
        actions.push(Action::Emit(0, Ev::C));
      }
      Node::Un(Op::TimeInterval, Box::new(hot))
    }
  };
  root.renumber();
  let mut recorders = vec![vec![]];
  if c.both {
    actions.insert(1, Action::Subscribe(1));
    recorders.push(vec![]);
  }
  if c.second {
    // The first subscription is cut off right after its last emission (whatever it has
    // latched or armed by then must not reach the second one), its timers run out, then the
    // whole script again for recorder 1 - only that second round is judged.
    let round: Vec<Action> = actions[1..].to_vec();
    if let Some(last_emit) = actions.iter().rposition(|a| matches!(a, Action::Emit(_, _))) {
      actions.truncate(last_emit + 1);
    }
    actions.push(Action::Unsub(0));
    actions.push(Action::Advance(c.d * 4));
    actions.push(Action::Subscribe(1));
    actions.extend(round);
    recorders.push(vec![]);
  }
  Case { root, hots: vec![HotKind::Harness], hot_illformed: false, conn: None, conn_take: None, conn_take_only: None, recorders, actions }
}

fn c16_check(_ctx: &Ctx, c: &C16Case) -> Report {
  let case = c16_build(c);
  let tc = TimedCase { case, sched: c.sched.clone() };
  let r = run_timed(&tc);
  let mut rep = Report::ok();
  rep.classes.push(format!("kind:{}", c.kind));
  rep.sample = Some(render_t(&tc, &r));
  let fail = |m: String| Some(format!("{} | {}", m, render_t(&tc, &r)));
  use arx_rt::Kind::*;
  match r.outcome.kind {
    Done | Quiescent => {}
    ref k => {
      if let Some(p) = crate_panic(&r.outcome) {
        rep.fail = fail(p);
        return rep;
      }
      rep.classes.push(format!("aborted:{:?}", k));
      return rep;
    }
  }
  if c.kind == "interval_us" || c.kind == "timer_us" {
    // the same definitions on a microsecond scale
    let us = sub_ms_period(c);
    let got: Vec<(Rk, u64)> = r.log.recs[0].iter().map(|e| (e.k.clone(), e.vt / 1_000)).collect();
    let exp: Vec<(Rk, u64)> = if c.kind == "timer_us" {
      vec![(Rk::N(P::U), us), (Rk::C, us)]
    } else {
      let mut v: Vec<(Rk, u64)> = (0..c.n).map(|k| (Rk::N(P::I(k as i64)), (k as u64 + 1) * us)).collect();
      v.push((Rk::C, c.n as u64 * us));
      v
    };
    rep.nontrivial = true;
    // (the imperfect-platform schedules add a thread start latency of 1 us per thread: never
    // early, at most 20 us late)
    let same = got.len() == exp.len() && got.iter().zip(exp.iter()).all(|(g, e)| g.0 == e.0 && g.1 >= e.1 && g.1 <= e.1 + 20);
    if !same {
      let show = |v: &Vec<(Rk, u64)>| v.iter().map(|(k, t)| format!("{}@{}us", k.show(), t)).collect::<Vec<_>>().join(" ");
      rep.fail = fail(format!("{} with a period of {} us: got <{}>, expected <{}>", c.kind, us, show(&got), show(&exp)));
    }
    return rep;
  }
  if c.both {
    rep.classes.push("two-subscriptions-at-once".into());
    for k in 0..2 {
      let got: Vec<(Rk, u64)> = r.log.recs[k].iter().map(|e| (e.k.clone(), e.vt / MS)).collect();
      let failk = |m: String| fail(format!("subscription {} of two alive at once: {}", k, m));
      c16_judge(c, got, &mut rep, &failk);
      if rep.fail.is_some() {
        break;
      }
    }
    return rep;
  }
  if !c.second {
    let got: Vec<(Rk, u64)> = r.log.recs[0].iter().map(|e| (e.k.clone(), e.vt / MS)).collect();
    c16_judge(c, got, &mut rep, &fail);
    return rep;
  }
  // the same observable value subscribed a second time, after the first subscription was
  // ended: the same timing, counted from the second subscribe
  rep.classes.push("second-subscription".into());
  let t0 = match r.log.sub_vt.get(1).copied().flatten() {
    Some(t) => t / MS,
    None => return rep,
  };
  let got1: Vec<(Rk, u64)> = r.log.recs[1].iter().map(|e| (e.k.clone(), (e.vt / MS).saturating_sub(t0))).collect();
  let fail2 = |m: String| fail(format!("second subscription (at {} ms): {}", t0, m));
  c16_judge(c, got1, &mut rep, &fail2);
  rep
}

fn c16_judge(c: &C16Case, got: Vec<(Rk, u64)>, rep: &mut Report, fail: &dyn Fn(String) -> Option<String>) {
  let d = c.d;
  // emission instants of the hot script (the emitter is the driver thread)
  let mut times: Vec<u64> = Vec::new();
  let mut t = 0u64;
  for g in &c.gaps {
    t += g;
    times.push(t);
    if c.kind == "delay" {
      t += d; // delay blocks the emitting thread
    }
  }
  rep.nontrivial = got.len() + c.gaps.len() >= 3;
  let show = |v: &Vec<(Rk, u64)>| v.iter().map(|(k, t)| format!("{}@{}", k.show(), t)).collect::<Vec<_>>().join(" ");
  match c.kind.as_str() {
    "interval" | "interval_default" => {
      let mut exp: Vec<(Rk, u64)> = (0..c.n).map(|k| (Rk::N(P::I(k as i64)), (k as u64 + 1) * d)).collect();
      exp.push((Rk::C, c.n as u64 * d));
      if got != exp {
        rep.fail = fail(format!("interval({}).take({}): got <{}>, expected <{}>", d, c.n, show(&got), show(&exp)));
      }
    }
    "interval_slow" => {
      // the numbers are consecutive whatever the subscriber's pace, none before its time
      let e = c.gaps[0];
      rep.classes.push(if e > d { "subscriber-slower-than-the-period".into() } else { "subscriber-faster-than-the-period".into() });
      let mut exp: Vec<Rk> = (0..c.n).map(|k| Rk::N(P::I(k as i64))).collect();
      exp.push(Rk::C);
      let kinds: Vec<Rk> = got.iter().map(|x| x.0.clone()).collect();
      let early = got.iter().enumerate().take(c.n).any(|(k, (_, t))| *t < (k as u64 + 1) * d + e);
      if kinds != exp || early {
        rep.fail = fail(format!(
          "interval({}).delay({}).take({}): got <{}>, expected the ticks 0..{} (tick k handed on no earlier than (k+1)*{}+{} ms) and complete",
          d, e, c.n, show(&got), c.n, d, e
        ));
      }
    }
    "interval_unsub" => {
      let exp: Vec<(Rk, u64)> = (0..c.n).map(|k| (Rk::N(P::I(k as i64)), (k as u64 + 1) * d)).collect();
      if got != exp {
        rep.fail = fail(format!("interval({}) unsubscribed at {}: got <{}>, expected <{}>", d, d * c.n as u64 + 3, show(&got), show(&exp)));
      }
    }
    "timer_zero" => {
      let exp = vec![(Rk::N(P::U), 0), (Rk::C, 0)];
      if got != exp {
        rep.fail = fail(format!("timer(0): got <{}>, expected <{}>", show(&got), show(&exp)));
      }
    }
    "timer" | "timer_default" => {
      let exp = vec![(Rk::N(P::U), d), (Rk::C, d)];
      if got != exp {
        rep.fail = fail(format!("timer({}): got <{}>, expected <{}>", d, show(&got), show(&exp)));
      }
    }
    "delay" => {
      let mut exp: Vec<(Rk, u64)> = times.iter().enumerate().map(|(i, t)| (Rk::N(P::I(i as i64)), t + d)).collect();
      if c.ending == 0 {
        exp.push((Rk::C, t + 2));
      }
      if got != exp {
        rep.fail = fail(format!("delay({}): got <{}>, expected <{}>", d, show(&got), show(&exp)));
      }
    }
    "timeout" => {
      // items pass; TimedOut at (item time + d) iff the successor / completion comes later
      let mut exp: Vec<(Rk, u64)> = Vec::new();
      let mut events: Vec<(u64, Option<i64>)> = times.iter().enumerate().map(|(i, t)| (*t, Some(i as i64))).collect();
      if c.ending == 0 {
        events.push((t + c.gaps[0], None));
      }
      let mut last_item: Option<u64> = None;
      let mut done = false;
      for (et, item) in events {
        if let Some(li) = last_item {
          if et > li + d {
            exp.push((Rk::E(CODE_TIMEOUT), li + d));
            done = true;
            break;
          }
        }
        match item {
          Some(i) => {
            exp.push((Rk::N(P::I(i)), et));
            last_item = Some(et);
          }
          None => {
            exp.push((Rk::C, et));
            done = true;
          }
        }
      }
      if !done {
        if let Some(li) = last_item {
          exp.push((Rk::E(CODE_TIMEOUT), li + d));
        }
      }
      if exp.iter().any(|e| matches!(e.0, Rk::E(_))) {
        rep.classes.push("timeout-fires".into());
      } else {
        rep.classes.push("timeout-does-not-fire".into());
      }
      if got != exp {
        rep.fail = fail(format!("timeout({}): got <{}>, expected <{}>", d, show(&got), show(&exp)));
      }
    }
    "timeout_slow" => {
      // hot.timeout(d).delay(5): the emitter is blocked 5 ms per item; the period restarts
      // when the item has been handed on
      let e = 5u64;
      let mut exp: Vec<(Rk, u64)> = Vec::new();
      let mut now = 0u64; // emitter's clock
      let mut armed: Option<u64> = None; // expiry of the running period
      let mut done = false;
      let mut script: Vec<(u64, Option<i64>)> = c.gaps.iter().enumerate().map(|(i, g)| (*g, Some(i as i64))).collect();
      if c.ending == 0 {
        script.push((c.gaps[0], None));
      }
      for (gap, item) in script {
        let arrival = now + gap;
        if let Some(exp_at) = armed {
          if arrival > exp_at {
            exp.push((Rk::E(CODE_TIMEOUT), exp_at));
            done = true;
            break;
          }
        }
        match item {
          Some(i) => {
            exp.push((Rk::N(P::I(i)), arrival + e));
            now = arrival + e;
            armed = Some(now + d);
          }
          None => {
            exp.push((Rk::C, arrival));
            done = true;
            break;
          }
        }
      }
      if !done {
        if let Some(exp_at) = armed {
          exp.push((Rk::E(CODE_TIMEOUT), exp_at));
        }
      }
      // an arrival exactly at an expiry instant is ambiguous: skip
      let mut t2 = 0u64;
      let mut ambiguous = false;
      let mut arm2: Option<u64> = None;
      for g in &c.gaps {
        let a = t2 + g;
        if arm2 == Some(a) {
          ambiguous = true;
        }
        t2 = a + e;
        arm2 = Some(t2 + d);
      }
      if c.ending == 0 && arm2 == Some(t2 + c.gaps[0]) {
        ambiguous = true;
      }
      if !ambiguous && got != exp {
        rep.fail = fail(format!("timeout({}).delay(5): got <{}>, expected <{}>", d, show(&got), show(&exp)));
      }
    }
    "sample" | "debounce" => {
      // only items the source emitted, in source order, none twice
      let idx: Vec<i64> = got.iter().filter_map(|(k, _)| if let Rk::N(p) = k { Some(p.as_i64()) } else { None }).collect();
      if idx.iter().any(|i| *i < 0 || *i >= c.gaps.len() as i64) || idx.windows(2).any(|w| w[1] <= w[0]) {
        rep.fail = fail(format!("{}: delivered {:?}, not a strictly increasing selection of the source's items", c.kind, idx));
        return;
      }
      if c.kind == "sample" {
        // exact: at every tick the latest item not yet sampled
        let mut exp: Vec<(Rk, u64)> = Vec::new();
        let mut sampled: i64 = -1;
        let total = t + 2 * d;
        let mut tick = d;
        while tick <= total {
          let latest = times.iter().rposition(|x| *x < tick).map(|p| p as i64).unwrap_or(-1);
          if latest > sampled {
            exp.push((Rk::N(P::I(latest)), tick));
            sampled = latest;
          }
          tick += d;
        }
        if c.ending == 0 {
          exp.push((Rk::C, total));
        }
        // ticks that coincide with an emission instant are ambiguous: skip those cases
        let ambiguous = times.iter().any(|x| x % d == 0) || total % d == 0;
        if !ambiguous && got != exp {
          rep.fail = fail(format!("sample(interval({})): got <{}>, expected <{}>", d, show(&got), show(&exp)));
        }
      }
    }
    _ => {
      // time_interval: the emitted durations are the gaps between consecutive source events
      let durs: Vec<i64> = got.iter().filter_map(|(k, _)| if let Rk::N(p) = k { Some(p.as_i64()) } else { None }).collect();
      let mut gaps_between: Vec<i64> = c.gaps.iter().skip(1).map(|g| *g as i64).collect();
      let with_first: Vec<i64> = c.gaps.iter().map(|g| *g as i64).collect();
      if c.ending == 0 {
        gaps_between.push(c.gaps[0] as i64);
      }
      let mut with_first_and_final = with_first.clone();
      if c.ending == 0 {
        with_first_and_final.push(c.gaps[0] as i64);
      }
      let mut without_final = gaps_between.clone();
      if c.ending == 0 {
        without_final.pop();
      }
      if durs != gaps_between && durs != with_first_and_final && durs != without_final && durs != with_first {
        rep.fail = fail(format!("time_interval: durations {:?} are not the gaps {:?}", durs, with_first_and_final));
      }
    }
  }
  }

/// concurrent variant: the subscription is ended from another thread (or by the terminal)
/// while the scheduler's worker is busy or just going idle
fn c15_conc_check(_ctx: &Ctx, c: &super::conc::C09Case) -> Report {
  let r = super::conc::run_cc(&c.cc, 5_000);
  let mut rep = Report::ok();
  rep.classes = op_classes(&c.cc.case);
  rep.sample = Some(super::conc::render_cc(&c.cc, &r));
  use arx_rt::Kind::*;
  match r.outcome.kind {
    Done | Quiescent => {}
    ref k => {
      rep.classes.push(format!("aborted:{:?}", k));
      return rep;
    }
  }
  if !r.log.epilogue_done {
    return rep;
  }
  rep.nontrivial = r.outcome.switches >= 4 && r.outcome.threads.iter().any(|t| t.lib);
  if let Some(t) = r.outcome.threads.iter().find(|t| t.lib && !t.finished) {
    rep.fail = Some(format!(
      "library thread {} is still alive ({}) after every subscription ended | {}",
      t.name,
      t.wait,
      super::conc::render_cc(&c.cc, &r)
    ));
  }
  rep
}

// C16, items arriving from two threads: delay(d) hands each item on d after receiving it,
// also when another thread's item is being delayed at the same moment

#[derive(Clone, Debug, Serialize, Deserialize)]
pub struct C16ConcCase {
  pub cc: super::conc::ConcCase,
  pub d: u64,
  /// gaps (ms) before each emission, per emitting thread
  pub gaps: Vec<Vec<u64>>,
  pub merged: bool,
  /// hot0.timeout(d).delay(5) instead of delay(d): items of two threads pass the timeout
  /// while the other thread's item is still being handed on (a subscriber that takes time)
  #[serde(default)]
  pub timeout: bool,
  /// hot0.debounce(1) fed by two threads that push an item every millisecond: pushes and
  /// timer ticks fall on the same instants, their order is the schedule's
  #[serde(default)]
  pub debounce: bool,
}

const SLOW_MS: u64 = 5;

fn c16_conc_strategy(_ctx: &Ctx) -> BoxedStrategy<C16ConcCase> {
  let gaps = || prop::collection::vec(prop::sample::select(vec![3u64, 7, 9, 11, 15, 40]), 1..=3);
  (prop::sample::select(vec![10u64, 25]), gaps(), gaps(), any::<bool>(), sched_strategy(), prop::bool::weighted(0.3), prop::bool::weighted(0.25))
    .prop_map(|(d, g0, g1, merged, sched, timeout, debounce)| {
      if debounce {
        let gaps: Vec<Vec<u64>> = vec![vec![1; g0.len() + 2], vec![1; g1.len() + 1]];
        let mut root = Node::Un(Op::Debounce(1), Box::new(Node::Src(0, Src::Hot(0))));
        root.renumber();
        let threads: Vec<Vec<Action>> = gaps
          .iter()
          .enumerate()
          .map(|(t, gs)| {
            let mut v = Vec::new();
            for (j, g) in gs.iter().enumerate() {
              v.push(Action::Advance(*g));
              v.push(Action::Emit(0, Ev::N(100 * (t as i64 + 1) + j as i64)));
            }
            v
          })
          .collect();
        let case = Case {
          root,
          hots: vec![HotKind::Harness],
          hot_illformed: false,
          conn: None,
          conn_take: None, conn_take_only: None,
          recorders: vec![vec![]],
          actions: vec![Action::Subscribe(0)],
        };
        return C16ConcCase { cc: super::conc::ConcCase { case, threads, sched }, d: 1, gaps, merged: false, timeout: false, debounce: true };
      }
      let merged = merged && !timeout;
      // (timeout: a period no gap of the script reaches, so that the only expiry is the one
      // after the last item)
      let d = if timeout { d + 15 } else { d };
      let short = |g: Vec<u64>| if timeout { g.into_iter().map(|x| x.min(9)).collect() } else { g };
      let gaps = vec![short(g0), short(g1)];
      let src = |i: usize| Node::Src(0, Src::Hot(i));
      let mut root = if timeout {
        Node::Un(Op::Delay(SLOW_MS), Box::new(Node::Un(Op::Timeout(d), Box::new(src(0)))))
      } else if merged {
        Node::Un(Op::Delay(d), Box::new(Node::Nary(Comb::Merge, vec![src(0), src(1)])))
      } else {
        Node::Un(Op::Delay(d), Box::new(src(0)))
      };
      root.renumber();
      let threads: Vec<Vec<Action>> = gaps
        .iter()
        .enumerate()
        .map(|(t, gs)| {
          let mut v = Vec::new();
          for (j, g) in gs.iter().enumerate() {
            v.push(Action::Advance(*g));
            v.push(Action::Emit(if merged { t } else { 0 }, Ev::N(100 * (t as i64 + 1) + j as i64)));
          }
          v
        })
        .collect();
      let case = Case {
        root,
        hots: vec![HotKind::Harness; if merged { 2 } else { 1 }],
        hot_illformed: false,
        conn: None,
        conn_take: None, conn_take_only: None,
        recorders: vec![vec![]],
        actions: vec![Action::Subscribe(0)],
      };
      C16ConcCase { cc: super::conc::ConcCase { case, threads, sched }, d, gaps, merged, timeout, debounce: false }
    })
    .boxed()
}

fn c16_conc_check(_ctx: &Ctx, c: &C16ConcCase) -> Report {
  let r = super::conc::run_cc(&c.cc, 500);
  let mut rep = Report::ok();
  rep.classes.push(if c.merged { "delay-after-merge".into() } else { "delay-of-one-hot-source".into() });
  rep.sample = Some(super::conc::render_cc(&c.cc, &r));
  let fail = |m: String| Some(format!("{} | {}", m, super::conc::render_cc(&c.cc, &r)));
  use arx_rt::Kind::*;
  match r.outcome.kind {
    Done | Quiescent => {}
    ref k => {
      if let Some(p) = crate_panic(&r.outcome) {
        rep.fail = fail(p);
        return rep;
      }
      rep.classes.push(format!("aborted:{:?}", k));
      return rep;
    }
  }
  if c.debounce {
    rep.classes.clear();
    rep.classes.push("debounce-with-pushes-on-the-tick-instants".into());
    // only items the source emitted, none twice, each thread's items in that thread's order
    let got: Vec<i64> = r.log.recs[0].iter().filter_map(|e| if let Rk::N(p) = &e.k { Some(p.as_i64()) } else { None }).collect();
    rep.nontrivial = got.len() >= 2;
    let pushed: Vec<i64> = c.gaps.iter().enumerate().flat_map(|(t, gs)| (0..gs.len()).map(move |j| 100 * (t as i64 + 1) + j as i64)).collect();
    let mut seen = std::collections::BTreeSet::new();
    let dup = got.iter().any(|v| !seen.insert(*v));
    let foreign = got.iter().any(|v| !pushed.contains(v));
    let disorder = (1..=2).any(|t| {
      let mine: Vec<i64> = got.iter().copied().filter(|v| v / 100 == t).collect();
      mine.windows(2).any(|w| w[1] <= w[0])
    });
    if dup || foreign || disorder {
      rep.fail = fail(format!("debounce(1) delivered {:?}: not a selection of the pushed items {:?} in each thread's order, none twice", got, pushed));
    }
    return rep;
  }
  if c.timeout {
    rep.classes.clear();
    rep.classes.push("timeout-with-a-slow-subscriber".into());
    // every item is handed on SLOW_MS after it arrived (the emitting thread waits that long);
    // the period restarts with every hand-over, no gap of the script reaches it: exactly one
    // TimedOut, d after the last hand-over
    let mut expected: Vec<(i64, u64)> = Vec::new();
    let mut spans: Vec<(u64, u64)> = Vec::new();
    for (t, gs) in c.gaps.iter().enumerate() {
      let mut now = 0u64;
      for (j, g) in gs.iter().enumerate() {
        now += *g;
        spans.push((now, now + SLOW_MS));
        now += SLOW_MS;
        expected.push((100 * (t as i64 + 1) + j as i64, now));
      }
    }
    let last = expected.iter().map(|e| e.1).max().unwrap_or(0);
    let overlap = spans.iter().enumerate().any(|(i, a)| spans.iter().enumerate().any(|(j, b)| i != j && a.0 < b.1 && b.0 < a.1));
    rep.nontrivial = overlap;
    if overlap {
      rep.classes.push("an-item-arrives-while-another-is-being-handed-on".into());
    }
    let mut got: Vec<(i64, u64)> = Vec::new();
    let mut errs: Vec<(u32, u64)> = Vec::new();
    let mut after_terminal = false;
    for e in r.log.recs[0].iter() {
      match &e.k {
        Rk::N(p) => {
          if !errs.is_empty() {
            after_terminal = true;
          }
          got.push((p.as_i64(), e.vt / MS))
        }
        Rk::E(code) => errs.push((*code, e.vt / MS)),
        Rk::C => errs.push((0, e.vt / MS)),
      }
    }
    got.sort();
    expected.sort();
    if got != expected || after_terminal {
      rep.fail = fail(format!("timeout({}).delay({}) handed on (item, ms) {:?}, expected {:?}", c.d, SLOW_MS, got, expected));
    } else {
      // (d after the last item: counted from its arrival or from its hand-over, both readings
      // of "after an item" are accepted here)
      let ok = errs.len() == 1 && errs[0].0 == CODE_TIMEOUT && errs[0].1 + SLOW_MS >= last + c.d && errs[0].1 <= last + c.d;
      if !ok {
        rep.fail = fail(format!(
          "timeout({}).delay({}): terminal events (code, ms) {:?}, expected one TimedOut between {} and {} ms ({} ms after the last item arrived / was handed on)",
          c.d, SLOW_MS, errs, last + c.d - SLOW_MS, last + c.d, c.d
        ));
      }
    }
    return rep;
  }
  // delay runs on the emitting thread: the j-th item of a thread is emitted after its gaps
  // and the j delays before it, and handed on d later
  let mut expected: Vec<(i64, u64)> = Vec::new();
  let mut overlap = false;
  let mut windows: Vec<(u64, u64)> = Vec::new();
  for (t, gs) in c.gaps.iter().enumerate() {
    let mut now = 0u64;
    for (j, g) in gs.iter().enumerate() {
      now += *g;
      expected.push((100 * (t as i64 + 1) + j as i64, now + c.d));
      if windows.iter().any(|(a, b)| now < *b && now + c.d > *a) && t == 1 {
        overlap = true;
      }
      if t == 0 {
        windows.push((now, now + c.d));
      }
      now += c.d;
    }
  }
  rep.nontrivial = overlap;
  if overlap {
    rep.classes.push("two-items-being-delayed-at-once".into());
  }
  let mut got: Vec<(i64, u64)> = r.log.recs[0]
    .iter()
    .filter_map(|e| match &e.k {
      Rk::N(p) => Some((p.as_i64(), e.vt / MS)),
      _ => None,
    })
    .collect();
  got.sort();
  expected.sort();
  if got != expected {
    rep.fail = fail(format!("delay({}) handed on (item, ms) {:?}, expected {:?}", c.d, got, expected));
  }
  rep
}

pub fn properties() -> Vec<Property> {
  vec![
    Property {
      id: "C15",
      rule: "cases = generated pipelines over interval / timer sources and observe_on / subscribe_on / delay / debounce / timeout (new-thread schedulers, periods 5..25 ms virtual) with merge / amb / take_until, optional take / first / retry downstream, ended by complete / error / unsubscribe at generated virtual instants, 1..2 subscribers, generated schedule; oracle = every library-spawned thread has finished at quiescence, no later than the sum of the pipeline's timer periods after the last subscription ended; non-trivial = at least one library thread was created",
      assumptions: vec!["virtual clock: computation takes no time", "bound = sum of the periods in the pipeline (a thread may be inside one sleep of each nested timed operator)"],
      subs: vec![
        mk_sub("threads", (1000, 20_000), c15_strategy, c15_check),
        mk_sub("conc", (1500, 30_000), |ctx| super::conc::c09_strategy(ctx, true), c15_conc_check),
      ],
    },
    Property {
      id: "C16",
      rule: "cases = kind in {interval.take(n), interval unsubscribed between ticks, interval / timer with periods of 900, 2900, 10500, 25250 us, interval under a subscriber that takes 3..40 ms per tick (ticks consecutive, none early), timer, interval / timer on the default scheduler (run inside subscribe), delay, timeout, timeout with a slow subscriber, sample, debounce, time_interval} x period in {10, 25} ms x gap scripts from {3,7,9,11,15,40} ms (never equal to the period) x ending x generated schedule, 30 % subscribed a second time after the first subscription was cut off right after its last emission (only the second round is judged, counted from its subscribe) or - timeout / sample / debounce - by two subscribers at once (each judged by itself); oracle = (virtual time, event) pairs equal the timing definition (sample/debounce: strictly increasing selection of source items; sample exact when no tick coincides with an emission); non-trivial = >= 3 timed events; two_threads: delay(d) over one hot source or a merge of two, fed by two emitting threads with generated gaps - every item is handed on exactly d after it was emitted, also while another thread's item is being delayed; or timeout(d).delay(5) fed by two threads with gaps below d - exactly one TimedOut, d after the last hand-over; or debounce(1) fed by two threads pushing every millisecond (pushes and ticks on the same instants) - a selection of the pushed items, none twice",
      assumptions: vec!["virtual clock owned by the runtime (thread::sleep / Instant redirected)", "timeout arms its timer after the first item (as the statement words it)"],
      subs: vec![
        mk_sub("clock", (1000, 20_000), c16_strategy, c16_check),
        mk_sub("two_threads", (300, 6_000), c16_conc_strategy, c16_conc_check),
      ],
    },
  ]
}
