//! Model-free sequential properties: C01 (observer contract), C05 (unsubscribe, SEQ part),
//! C06 (teardown, root endings), C17 (release of callbacks and items).

use super::*;
use crate::ast::*;
use crate::gen::{self, CaseCfg, GenCfg};
use crate::real::*;
use proptest::prelude::*;
use serde::{Deserialize, Serialize};

#[derive(Clone, Debug, Serialize, Deserialize)]
pub struct SeqCase {
  pub case: Case,
  pub hash_seed: u64,
}

pub fn seq_strategy(cfg: CaseCfg) -> BoxedStrategy<SeqCase> {
  (gen::case(&cfg), 0u64..4).prop_map(|(case, hash_seed)| SeqCase { case, hash_seed }).boxed()
}

/// rough size of a case: items its sources and its history can produce, and its largest count
/// parameter. Only the `large` generators get beyond a few dozen.
pub fn case_size(c: &Case) -> u64 {
  let mut n = c.actions.len() as u64 + c.recorders.len() as u64;
  let mut mult = 1u64;
  c.root.walk(&mut |x| match x {
    Node::Src(_, Src::Cold { script, .. }) => n += script.len() as u64,
    Node::Src(_, Src::PerSub { scripts, .. }) => n += scripts.iter().map(|s| s.len() as u64).sum::<u64>(),
    Node::Src(_, Src::FromIter(v)) => n += v.len() as u64,
    Node::Src(_, Src::Range(_, k)) => n += (*k).max(0) as u64,
    Node::Un(Op::Take(k), _) | Node::Un(Op::ElementAt(k), _) => n += (*k).min(1_000) as u64,
    Node::Un(Op::StartWith(v), _) => n += v.len() as u64,
    Node::Un(Op::Retry(k), _) => mult = mult.saturating_mul(*k as u64 + 1),
    _ => {}
  });
  n.saturating_mul(mult)
}

/// budgets of a sequential run: fixed for the ordinary (small) cases, growing with the size
/// of the `large` ones so that a legitimately long run is not cut short
pub fn seq_budget(c: &Case) -> (u64, i64) {
  let size = case_size(c);
  if size <= 40 {
    (60_000, 60_000)
  } else {
    let b = (60_000 + 3_000 * size).min(6_000_000);
    (b, b as i64)
  }
}

pub fn run_seq(c: &SeqCase) -> RunResult {
  let (max_steps, fuel) = seq_budget(&c.case);
  let cfg = arx_rt::Config {
    schedule: arx_rt::Schedule { hash_seed: c.hash_seed, ..Default::default() },
    max_steps,
    fuel,
  };
  run_case(&c.case, cfg, RunOpts::default())
}

pub fn render(c: &SeqCase, r: &RunResult) -> String {
  let traces: Vec<String> = (0..r.log.recs.len()).map(|k| format!("r{}={}", k, show_trace(&r.trace(k)))).collect();
  format!("{} => {} [{:?}]", c.case.show(), traces.join(" "), r.outcome.kind)
}

pub fn op_classes(c: &Case) -> Vec<String> {
  let mut v: Vec<String> = c.root.ops().into_iter().map(|o| format!("op:{}", o)).collect();
  v.sort();
  v.dedup();
  v
}

/// Is the case small by the reference interpreter's count (so that a step / fuel budget
/// hit on the crate means a runaway, not a legitimately long run)? None = the reference
/// does not support the pipeline.
pub fn small_by_reference(c: &SeqCase) -> Option<bool> {
  match crate::model::run_model(&c.case, crate::model::Conv::all()[0]) {
    Ok(m) => Some(m.fuel_used <= 1_500),
    Err(crate::model::ModelErr::Unbounded) => Some(false),
    Err(crate::model::ModelErr::Unsupported(_)) => None,
  }
}

/// first violation of `next* (error|complete)?` in a recorder history
pub fn contract_violation(evs: &[RecEv]) -> Option<String> {
  let mut term: Option<usize> = None;
  for (i, e) in evs.iter().enumerate() {
    if let Some(t) = term {
      return Some(format!(
        "event #{} ({}) delivered after terminal #{} ({})",
        i,
        e.k.show(),
        t,
        evs[t].k.show()
      ));
    }
    if e.k.is_terminal() {
      term = Some(i);
    }
  }
  None
}

fn aborted(r: &RunResult) -> Option<String> {
  use arx_rt::Kind::*;
  match r.outcome.kind {
    Done | Quiescent => None,
    ref k => Some(format!("{:?}", k)),
  }
}

// ---------------------------------------------------------------------------------------
// C01

fn c01_cfg(ctx: &Ctx, hot: bool) -> CaseCfg {
  let mut exclude = vec![];
  if ctx.excl("no_replay_conn") {
    exclude.push("replay_conn".to_string());
  }
  CaseCfg {
    gen: GenCfg {
      depth: ctx.tier.pick(3, 5),
      max_script: 6,
      nhot: if hot { 2 } else { 0 },
      ill_formed: true,
      combine: true,
      recovery: true,
      sched_default: true,
      unbounded: false,
      switch: true,
      connectable: true,
      exclude,
      ..GenCfg::default()
    },
    hot_kinds: vec![HotKind::Harness],
    max_rec: 1,
    hot_script: 6,
    // re-entrant misbehaviour: the subscriber's callbacks (also the terminal ones) push
    // further events into the hot source they are being called from
    reactions: hot,
    ..CaseCfg::default()
  }
}

/// a subscriber that arrives at a subject which already holds a history (or a latest value)
/// and misbehaves from inside the hand-over: it terminates the subject, pushes more items or
/// unsubscribes while the history is still being handed to it
fn c01_late_strategy(_ctx: &Ctx) -> BoxedStrategy<SeqCase> {
  let kinds = prop::sample::select(vec![HotKind::Replay, HotKind::Replay, HotKind::Behavior(5), HotKind::Subject]);
  let react = (0usize..3, 0u8..4, 0i64..3).prop_map(|(at, what, v)| Reaction {
    at,
    what: match what {
      0 => React::Emit(0, Ev::C),
      1 => React::Emit(0, Ev::E(2)),
      2 => React::Emit(0, Ev::N(50 + v)),
      _ => React::UnsubSelf,
    },
  });
  (
    kinds,
    prop::collection::vec(0i64..9, 0..=4),
    prop::collection::vec(react, 1..=2),
    gen::script_any(4),
    any::<bool>(),
    0u64..4,
  )
    .prop_map(|(kind, history, reactions, later, via_map, hash_seed)| {
      let mut actions: Vec<Action> = history.into_iter().map(|v| Action::Emit(0, Ev::N(v))).collect();
      actions.push(Action::Subscribe(0));
      actions.extend(later.into_iter().map(|e| Action::Emit(0, e)));
      let mut root = Node::Src(0, Src::Hot(0));
      if via_map {
        root = Node::Un(Op::Map(crate::val::MapF::Add(0)), Box::new(root));
      }
      root.renumber();
      SeqCase {
        case: Case { root, hots: vec![kind], hot_illformed: true, conn: None, conn_take: None, conn_take_only: None, recorders: vec![reactions], actions },
        hash_seed,
      }
    })
    .boxed()
}

fn c01_check(ctx: &Ctx, c: &SeqCase) -> Report {
  c01_check_run(ctx, c).0
}

fn c01_check_run(_ctx: &Ctx, c: &SeqCase) -> (Report, RunResult) {
  let r = run_seq(c);
  let mut rep = Report::ok();
  rep.classes = op_classes(&c.case);
  rep.classes.push(format!("outcome:{:?}", r.outcome.kind));
  // non-trivial: some source attempted an emission after its own terminal, or an emission
  // reached a source after the root had terminated
  let root_term: Option<u64> =
    r.log.recs.iter().flat_map(|v| v.iter()).filter(|e| e.k.is_terminal()).map(|e| e.end).min();
  let mut nontrivial = false;
  for p in &r.log.probes {
    let mut seen_term = false;
    for a in &p.attempts {
      if seen_term {
        nontrivial = true;
      }
      if a.ev.is_terminal() {
        seen_term = true;
      }
      if let Some(t) = root_term {
        if a.stamp > t && a.stamp < r.log.sentinel_stamp {
          nontrivial = true;
        }
      }
    }
  }
  for (k, ri) in &r.log.reactions_fired {
    if c.case.recorders[*k][*ri].at == AT_TERMINAL {
      nontrivial = true;
      rep.classes.push("re-entrant-emission-from-terminal-callback".into());
      if c.case.root.size() == 1 {
        rep.classes.push("re-entrant-emission-from-terminal-callback:direct-subscription".into());
      }
    }
  }
  rep.nontrivial = nontrivial;
  if nontrivial {
    rep.classes.push("emission-after-terminal".into());
  }
  rep.sample = Some(render(c, &r));
  for (k, evs) in r.log.recs.iter().enumerate() {
    if let Some(m) = contract_violation(evs) {
      rep.fail = Some(format!("recorder {}: {} | {}", k, m, render(c, &r)));
      return (rep, r);
    }
    // Subscription::is_subscribed() must be false once a terminal was recorded
    if let Some(t) = evs.iter().find(|e| e.k.is_terminal()) {
      if let Some((st, row)) = r.log.timeline.last() {
        if *st > t.end && row.get(k).copied().flatten() == Some(true) {
          rep.fail = Some(format!(
            "recorder {}: Subscription::is_subscribed() still true after the terminal | {}",
            k,
            render(c, &r)
          ));
          return (rep, r);
        }
      }
    }
  }
  if r.outcome.kind == arx_rt::Kind::Panic {
    rep.fail = Some(format!("library panicked: {:?} | {}", r.outcome.panics, render(c, &r)));
  }
  (rep, r)
}

fn c01_late_check(ctx: &Ctx, c: &SeqCase) -> Report {
  let (mut rep, r) = c01_check_run(ctx, c);
  // non-trivial: the subscriber did something from inside a callback
  rep.nontrivial = !r.log.reactions_fired.is_empty();
  for (k, ri) in &r.log.reactions_fired {
    rep.classes.push(match &c.case.recorders[*k][*ri].what {
      React::Emit(_, Ev::N(_)) => "from-a-callback:next".to_string(),
      React::Emit(_, _) => "from-a-callback:terminal".to_string(),
      React::UnsubSelf => "from-a-callback:unsubscribe".to_string(),
      React::Subscribe(_) => "from-a-callback:subscribe".to_string(),
    });
  }
  rep.classes.sort();
  rep.classes.dedup();
  rep.classes.retain(|x| !x.starts_with("op:"));
  rep.classes.push(format!("subject:{:?}", c.case.hots[0]).split('(').next().unwrap().to_string());
  // non-trivial: a reaction fired (the subscriber did something from inside a callback)
  rep
}

// ---------------------------------------------------------------------------------------
// C05 (sequential part)

fn c05_cfg(ctx: &Ctx) -> CaseCfg {
  CaseCfg {
    gen: GenCfg {
      depth: ctx.tier.pick(3, 5),
      nhot: 2,
      combine: true,
      recovery: true,
      sched_default: true,
      ..GenCfg::default()
    },
    hot_kinds: vec![HotKind::Harness, HotKind::Subject, HotKind::Behavior(0), HotKind::Replay],
    max_rec: 2,
    unsub: true,
    reactions: true,
    ..CaseCfg::default()
  }
}

fn c05_check(_ctx: &Ctx, c: &SeqCase) -> Report {
  let r = run_seq(c);
  let mut rep = Report::ok();
  rep.classes = op_classes(&c.case);
  rep.sample = Some(render(c, &r));
  if let Some(k) = aborted(&r) {
    rep.classes.push(format!("aborted:{}", k));
    return rep;
  }
  for (k, evs) in r.log.recs.iter().enumerate() {
    let first_unsub = r.log.unsub_marks[k].first().copied();
    if let Some((call, ret)) = first_unsub {
      // non-trivial: the unsubscribe landed strictly between emission attempts
      let before = r.log.probes.iter().flat_map(|p| p.attempts.iter()).any(|a| a.stamp < call);
      let after = r
        .log
        .probes
        .iter()
        .flat_map(|p| p.attempts.iter())
        .any(|a| a.stamp > ret && a.stamp < r.log.sentinel_stamp);
      if before && after {
        rep.nontrivial = true;
        rep.classes.push("unsub-mid-stream".into());
      }
      if r.log.unsub_marks[k].len() > 1 {
        rep.classes.push("unsub-repeated".into());
      }
      if r.log.reactions_fired.iter().any(|(rk, ri)| *rk == k && c.case.recorders[k][*ri].what == React::UnsubSelf) {
        rep.classes.push("unsub-inside-callback".into());
      }
      for e in evs {
        if e.start > ret {
          rep.fail = Some(format!(
            "recorder {}: {} delivered (start stamp {}) after unsubscribe() returned (stamp {}) | {}",
            k,
            e.k.show(),
            e.start,
            ret,
            render(c, &r)
          ));
          return rep;
        }
      }
    }
    // is_subscribed time line
    let sub_ret = match r.log.sub_marks[k] {
      Some((_, ret)) if ret > 0 => ret,
      _ => continue,
    };
    let term_at = evs.iter().find(|e| e.k.is_terminal()).map(|e| e.start);
    let unsub_at = first_unsub.map(|(call, _)| call);
    let unsub_ret = first_unsub.map(|(_, ret)| ret);
    for (st, row) in &r.log.timeline {
      if *st < sub_ret {
        continue;
      }
      let actual = match row.get(k).copied().flatten() {
        Some(b) => b,
        None => continue,
      };
      let ended = term_at.map_or(false, |t| t < *st) || unsub_ret.map_or(false, |t| t < *st);
      let maybe_ending = unsub_at.map_or(false, |t| t < *st);
      if ended && actual {
        rep.fail = Some(format!(
          "recorder {}: is_subscribed()==true at stamp {} after the subscription ended | {}",
          k,
          st,
          render(c, &r)
        ));
        return rep;
      }
      if !ended && !maybe_ending && !actual {
        rep.fail = Some(format!(
          "recorder {}: is_subscribed()==false at stamp {} although neither a terminal nor an unsubscribe happened | {}",
          k,
          st,
          render(c, &r)
        ));
        return rep;
      }
    }
  }
  if r.outcome.kind == arx_rt::Kind::Panic {
    rep.fail = Some(format!("library panicked: {:?} | {}", r.outcome.panics, render(c, &r)));
  }
  rep
}

// ---------------------------------------------------------------------------------------
// C06 (root endings, model-free)

fn c06_cfg(ctx: &Ctx) -> CaseCfg {
  let mut exclude: Vec<String> = vec![];
  for (sw, op) in [("no_take_while", "take_while"), ("no_contains", "contains"), ("no_dematerialize", "dematerialize")] {
    if ctx.excl(sw) {
      exclude.push(op.into());
    }
  }
  CaseCfg {
    gen: GenCfg {
      depth: ctx.tier.pick(3, 5),
      nhot: 2,
      combine: true,
      recovery: true,
      unbounded: true,
      sched_default: true,
      // publish().ref_count() / replay().ref_count(): the shared connection ends with its
      // last subscriber, so the sources below it are told as well
      connectable: true,
      exclude,
      ..GenCfg::default()
    },
    hot_kinds: vec![HotKind::Harness, HotKind::Harness, HotKind::Subject, HotKind::Behavior(1), HotKind::Replay, HotKind::Async],
    max_rec: 2,
    unsub: true,
    drop_observable: true,
    ..CaseCfg::default()
  }
}

fn c06_check(_ctx: &Ctx, c: &SeqCase) -> Report {
  let r = run_seq(c);
  let mut rep = Report::ok();
  rep.classes = op_classes(&c.case);
  rep.sample = Some(render(c, &r));
  use arx_rt::Kind::*;
  match r.outcome.kind {
    FuelExhausted | StepBudget => {
      if small_by_reference(c) == Some(false) {
        // legitimately long (e.g. nested flat_maps multiplying their inputs)
        rep.classes.push("large-case(budget not judged)".into());
        return rep;
      }
      rep.fail = Some(format!(
        "a producer kept running ({:?}) although every bounded pipeline must stop | {}",
        r.outcome.kind,
        render(c, &r)
      ));
      return rep;
    }
    Done | Quiescent => {}
    ref k => {
      rep.classes.push(format!("aborted:{:?}", k));
      return rep;
    }
  }
  // did every subscribed recorder end before the sentinel round?
  let mut all_ended = true;
  let mut any_sub = false;
  let mut ended_by = Vec::new();
  for (k, evs) in r.log.recs.iter().enumerate() {
    if r.log.sub_marks[k].is_none() {
      continue;
    }
    any_sub = true;
    let term = evs.iter().find(|e| e.k.is_terminal() && e.start < r.log.sentinel_stamp);
    let unsub = r.log.unsub_marks[k].first();
    if let Some(t) = term {
      ended_by.push(format!("terminal:{}", if matches!(t.k, Rk::C) { "complete" } else { "error" }));
    } else if unsub.is_some() {
      ended_by.push("unsubscribe".to_string());
    } else {
      all_ended = false;
    }
  }
  if !any_sub || !all_ended {
    rep.classes.push("root-still-subscribed".into());
    return rep;
  }
  for e in &ended_by {
    rep.classes.push(format!("ended-by:{}", e));
  }
  // non-trivial: the ending happened while some source still had something to emit
  let end_stamp: u64 = r
    .log
    .recs
    .iter()
    .enumerate()
    .filter(|(k, _)| r.log.sub_marks[*k].is_some())
    .map(|(k, evs)| {
      let t = evs.iter().find(|e| e.k.is_terminal()).map(|e| e.start);
      let u = r.log.unsub_marks[k].first().map(|m| m.0);
      t.into_iter().chain(u).min().unwrap_or(0)
    })
    .max()
    .unwrap_or(0);
  rep.nontrivial = r.log.probes.iter().any(|p| p.attempts.iter().any(|a| a.stamp > end_stamp));
  for p in &r.log.probes {
    for a in &p.attempts {
      if a.stamp > r.log.sentinel_stamp && a.was_subscribed {
        rep.fail = Some(format!(
          "source #{} (subscription {}) still sees is_subscribed()==true at its next emission attempt after every subscriber ended | {}",
          p.sid, p.sub_no, render(c, &r)
        ));
        return rep;
      }
    }
    if p.final_sub {
      rep.fail = Some(format!(
        "source #{} (subscription {}) was never told: its observer still reports is_subscribed()==true after every subscriber ended | {}",
        p.sid, p.sub_no, render(c, &r)
      ));
      return rep;
    }
  }
  for (k, evs) in r.log.recs.iter().enumerate() {
    if let Some(e) = evs.iter().find(|e| e.start > r.log.sentinel_stamp) {
      rep.fail = Some(format!(
        "recorder {}: {} delivered in the sentinel round although the subscription had ended | {}",
        k,
        e.k.show(),
        render(c, &r)
      ));
      return rep;
    }
  }
  for (i, n) in r.log.subj_counts.iter().enumerate() {
    if let Some(n) = n {
      if *n > 0 {
        rep.fail = Some(format!(
          "hot source {} ({:?}) still holds {} observer(s) after every subscriber ended | {}",
          i,
          c.case.hots[i],
          n,
          render(c, &r)
        ));
        return rep;
      }
    }
  }
  rep
}

// ---------------------------------------------------------------------------------------
// C17

fn c17_cfg(ctx: &Ctx) -> CaseCfg {
  CaseCfg {
    gen: GenCfg {
      depth: ctx.tier.pick(3, 5),
      nhot: 1,
      combine: true,
      recovery: true,
      sched_default: true,
      // (shared connections: x.ref_count() / x.replay() own a subject with hooks)
      connectable: true,
      ..GenCfg::default()
    },
    hot_kinds: vec![HotKind::Harness, HotKind::Subject, HotKind::Behavior(0), HotKind::Replay, HotKind::Async],
    max_rec: 2,
    unsub: true,
    drop_observable: true,
    ..CaseCfg::default()
  }
}

fn c17_check(_ctx: &Ctx, c: &SeqCase) -> Report {
  let r = run_seq(c);
  let mut rep = Report::ok();
  rep.classes = op_classes(&c.case);
  rep.sample = Some(format!("{} closures_left={} items_left={}", render(c, &r), r.log.live_closures, r.log.live_items));
  if let Some(k) = aborted(&r) {
    rep.classes.push(format!("aborted:{}", k));
    return rep;
  }
  if !r.log.epilogue_done {
    rep.classes.push("epilogue-not-reached".into());
    return rep;
  }
  let has_op = c.case.root.size() > 1;
  let ended_by_terminal = r.log.recs.iter().any(|evs| evs.iter().any(|e| e.k.is_terminal()));
  rep.nontrivial = has_op && r.log.made_items > 0;
  rep.classes.push(if ended_by_terminal { "ended:terminal".into() } else { "ended:unsubscribe".into() });
  if r.log.live_closures != 0 || r.log.live_items != 0 {
    rep.fail = Some(format!(
      "after every subscription ended and all handles were dropped the library still owns {} closure(s) and {} item(s) | {}",
      r.log.live_closures,
      r.log.live_items,
      render(c, &r)
    ));
  }
  rep
}

/// C17 through new-thread schedulers: the same audit after a concurrent scenario
/// (observe_on / subscribe_on workers, an emitter thread, an unsubscribing thread)
fn c17_conc_check(_ctx: &Ctx, c: &super::conc::C09Case) -> Report {
  let r = super::conc::run_cc(&c.cc, 5_000);
  let mut rep = Report::ok();
  rep.classes = op_classes(&c.cc.case);
  rep.sample = Some(format!(
    "{} closures_left={} items_left={}",
    super::conc::render_cc(&c.cc, &r),
    r.log.live_closures,
    r.log.live_items
  ));
  if let Some(k) = aborted(&r) {
    rep.classes.push(format!("aborted:{}", k));
    return rep;
  }
  if !r.log.epilogue_done || r.outcome.threads.iter().any(|t| t.lib && !t.finished) {
    // a worker that never exits keeps its queue alive: C15's business
    rep.classes.push("worker-alive(not judged here)".into());
    return rep;
  }
  rep.nontrivial = r.log.made_items > 0 && r.outcome.threads.iter().any(|t| t.lib);
  if r.log.live_closures != 0 || r.log.live_items != 0 {
    rep.fail = Some(format!(
      "after the subscription ended, the workers exited and all handles were dropped the library still owns {} closure(s) and {} item(s) | {}",
      r.log.live_closures,
      r.log.live_items,
      super::conc::render_cc(&c.cc, &r)
    ));
  }
  rep
}

pub fn properties() -> Vec<Property> {
  vec![
    Property {
      id: "C01",
      rule: "cases = generated operator pipeline (all operator families, depth<=3/5) over ill-formed source scripts (arbitrary event lists) played by cold sources and by 2 hot sources interleaved by a generated order; late_subscriber: a subscriber arriving at a Replay / Behavior / plain Subject that already holds a history and, from inside the hand-over, terminates the subject, pushes items or unsubscribes; non-trivial = some source attempted an emission after its own terminal or after the pipeline had terminated; distinct = distinct serialised case",
      assumptions: vec!["sequential driver; scheduler operators run on the default scheduler", "instrumented copy of /repo/src (std paths redirected to the arx_rt facade)"],
      subs: vec![
        mk_sub("cold", (900, 20_000), |ctx| seq_strategy(c01_cfg(ctx, false)), c01_check),
        mk_sub("hot", (900, 20_000), |ctx| seq_strategy(c01_cfg(ctx, true)), c01_check),
        mk_sub("late_subscriber", (400, 8_000), c01_late_strategy, c01_late_check),
      ],
    },
    Property {
      id: "C05",
      rule: "cases = pipeline over well-formed cold/hot sources (harness hot source and the crate's subjects) with unsubscribe / repeated unsubscribe / Using-drop inserted at generated positions and reactions that unsubscribe from inside a callback; non-trivial = the unsubscribe landed strictly between two emission attempts",
      assumptions: vec!["sequential part only in this sub-check; cross-thread part is sub-check conc"],
      subs: {
        let mut v = vec![mk_sub("seq", (1500, 30_000), |ctx| seq_strategy(c05_cfg(ctx)), c05_check)];
        v.extend(super::conc::c05_conc_subs());
        v
      },
    },
    Property {
      id: "C06",
      rule: "cases = pipeline over probing sources (cold polite/rude, harness hot, crate subjects, bounded-by-operator repeat/endless iterators); every subscriber ends by terminal or unsubscribe at a generated position; non-trivial = the ending happened while some source still had events to emit; conc_sched: the observe_on / subscribe_on scenarios of C05 with an unsubscribing thread under generated schedules - when everything has come to rest no source is left subscribed (also not one that subscribe_on subscribed only after the unsubscribe); non-trivial = the source still had events to emit after the unsubscribe call or was subscribed after it",
      assumptions: vec!["root endings are checked model-free; inner endings (early-finish operator in one branch) are checked against the reference interpreter in sub-check inner"],
      subs: vec![
        mk_sub("root", (1500, 30_000), |ctx| seq_strategy(c06_cfg(ctx)), c06_check),
        super::diff::sub_c06_inner(),
        mk_sub("conc_sched", (500, 10_000), |ctx| super::conc::c09_strategy(ctx, true), super::conc::c06_conc_check),
      ],
    },
    Property {
      id: "C17",
      rule: "cases = pipeline over finite sources ended by complete / error / unsubscribe, every closure and item carries a liveness token; non-trivial = at least one operator and at least one item was produced",
      assumptions: vec!["harness sources drop their observer handles in the epilogue, as a well-behaved user source would"],
      subs: vec![
        mk_sub("seq", (1500, 30_000), |ctx| seq_strategy(c17_cfg(ctx)), c17_check),
        mk_sub("conc", (500, 10_000), |ctx| super::conc::c09_strategy(ctx, false), c17_conc_check),
      ],
    },
  ]
}

/// Entry point of the coverage-guided tier (fuzz/fuzz_targets/seq.rs): run the sequential
/// oracles selected by `props` on one decoded case; Some((property, sub-check, message)) on
/// the first violation.
pub fn fuzz_oracles(ctx: &Ctx, c: &SeqCase, props: &[String]) -> Option<(String, String, String)> {
  // coverage guidance loves large inputs; cases that are large by the reference's own count
  // (nested flat_maps multiplying their inputs) are not run at all
  if small_by_reference(c) == Some(false) {
    return None;
  }
  let want = |p: &str| props.is_empty() || props.iter().any(|x| x == p);
  let run = |p: &str, sub: &str, rep: Report| -> Option<(String, String, String)> {
    rep.fail.map(|m| (p.to_string(), sub.to_string(), m))
  };
  if c.case.hot_illformed {
    if want("C01") {
      return run("C01", if c.case.hots.is_empty() { "cold" } else { "hot" }, c01_check(ctx, c));
    }
    return None;
  }
  if want("C01") {
    if let Some(x) = run("C01", "hot", c01_check(ctx, c)) {
      return Some(x);
    }
  }
  if want("C05") {
    if let Some(x) = run("C05", "seq", c05_check(ctx, c)) {
      return Some(x);
    }
  }
  if want("C06") {
    if let Some(x) = run("C06", "root", c06_check(ctx, c)) {
      return Some(x);
    }
    if let Some(x) = run("C06", "inner", super::diff::c06_inner_check(ctx, c)) {
      return Some(x);
    }
  }
  if want("C17") {
    if let Some(x) = run("C17", "seq", c17_check(ctx, c)) {
      return Some(x);
    }
  }
  let has_reaction_other_than_subscribe =
    c.case.recorders.iter().flatten().any(|r| !matches!(r.what, React::Subscribe(_)));
  if want("C03") && !has_reaction_other_than_subscribe {
    // trace equality with the reference (covers the C02 / C03 / C04 operator families)
    if let Some(x) = run("C03", "combine", super::diff::c03_check(ctx, c)) {
      return Some(x);
    }
  }
  if want("C14") && !has_reaction_other_than_subscribe && c.case.recorders.len() >= 2 {
    if let Some(x) = run("C14", "resubscribe", super::diff::c14_check(ctx, c)) {
      return Some(x);
    }
  }
  None
}
