//! C08 (scheduler queue) and C18 (to_vec future): dedicated concurrent scenarios.

use super::conc::sched_strategy;
use super::*;
use crate::ast::*;
use crate::engine::SchedJson;
use crate::real::{code_of, mk_err};
use crate::val::*;
use proptest::prelude::*;
use rx_inst::prelude::*;
use serde::{Deserialize, Serialize};
use std::sync::{Arc, Mutex};

fn lk<T>(m: &Mutex<T>) -> std::sync::MutexGuard<'_, T> {
  match m.lock() {
    Ok(g) => g,
    Err(p) => p.into_inner(),
  }
}

// ---------------------------------------------------------------------------------------
// C08

#[derive(Clone, Debug, PartialEq, Eq, Serialize, Deserialize)]
pub enum TaskBody {
  Plain,
  Yields(u8),
  PostsAnother,
  CallsAbort,
}

#[derive(Clone, Debug, PartialEq, Eq, Serialize, Deserialize)]
pub enum POp {
  Post(TaskBody),
  Abort,
}

#[derive(Clone, Debug, Serialize, Deserialize)]
pub struct C08Case {
  pub posters: Vec<Vec<POp>>,
  pub default_scheduler: bool,
  pub sched: SchedJson,
}

#[derive(Clone, Debug, PartialEq, Eq)]
enum HK {
  PostCall(usize),
  PostRet(usize),
  TaskStart(usize),
  TaskEnd(usize),
  AbortCall(usize),
  AbortRet(usize),
}

#[derive(Clone, Debug)]
struct HEv {
  stamp: u64,
  tid: usize,
  lib: bool,
  k: HK,
}

#[derive(Default)]
struct Hist {
  evs: Mutex<Vec<HEv>>,
  next_task: Mutex<usize>,
  next_abort: Mutex<usize>,
}

impl Hist {
  fn rec(&self, k: HK) {
    let e = HEv { stamp: arx_rt::stamp(), tid: arx_rt::tid(), lib: arx_rt::thread_is_lib(), k };
    lk(&self.evs).push(e);
  }
  fn new_task(&self) -> usize {
    let mut g = lk(&self.next_task);
    *g += 1;
    *g - 1
  }
  fn new_abort(&self) -> usize {
    let mut g = lk(&self.next_abort);
    *g += 1;
    *g - 1
  }
}

fn post_task<S>(sch: &S, h: &Arc<Hist>, body: TaskBody)
where
  S: schedulers::IScheduler<'static> + Clone + Send + Sync + 'static,
{
  let id = h.new_task();
  let (h2, sch2) = (h.clone(), sch.clone());
  h.rec(HK::PostCall(id));
  sch.post(move || {
    h2.rec(HK::TaskStart(id));
    match &body {
      TaskBody::Plain => {}
      TaskBody::Yields(k) => {
        for _ in 0..*k {
          arx_rt::yield_point();
        }
      }
      TaskBody::PostsAnother => post_task(&sch2, &h2, TaskBody::Plain),
      TaskBody::CallsAbort => {
        let a = h2.new_abort();
        h2.rec(HK::AbortCall(a));
        sch2.abort();
        h2.rec(HK::AbortRet(a));
      }
    }
    h2.rec(HK::TaskEnd(id));
  });
  h.rec(HK::PostRet(id));
}

fn run_posters<S>(sch: S, posters: &[Vec<POp>], h: &Arc<Hist>)
where
  S: schedulers::IScheduler<'static> + Clone + Send + Sync + 'static,
{
  let mut handles = Vec::new();
  for (i, ops) in posters.iter().enumerate() {
    let (sch, h, ops) = (sch.clone(), h.clone(), ops.clone());
    handles.push(arx_rt::spawn_named(&format!("poster{}", i), move || {
      for op in ops {
        match op {
          POp::Post(b) => post_task(&sch, &h, b),
          POp::Abort => {
            let a = h.new_abort();
            h.rec(HK::AbortCall(a));
            sch.abort();
            h.rec(HK::AbortRet(a));
          }
        }
      }
    }));
  }
  for x in handles {
    x.join();
  }
}

fn c08_strategy(_ctx: &Ctx) -> BoxedStrategy<C08Case> {
  let body = prop_oneof![
    4 => Just(TaskBody::Plain),
    2 => (1u8..=3).prop_map(TaskBody::Yields),
    1 => Just(TaskBody::PostsAnother),
    1 => Just(TaskBody::CallsAbort),
  ];
  let op = prop_oneof![6 => body.prop_map(POp::Post), 1 => Just(POp::Abort)];
  (prop::collection::vec(prop::collection::vec(op, 0..=4), 1..=3), prop::bool::weighted(0.08), sched_strategy())
    .prop_map(|(posters, default_scheduler, sched)| C08Case { posters, default_scheduler, sched })
    .boxed()
}

fn c08_check(_ctx: &Ctx, c: &C08Case) -> Report {
  let h = Arc::new(Hist::default());
  let (h2, c2) = (h.clone(), c.clone());
  let cfg = arx_rt::Config { schedule: c.sched.to_schedule(), max_steps: 60_000, fuel: 100_000 };
  let out = crate::real::rt_run(cfg, move || {
    if c2.default_scheduler {
      run_posters(schedulers::default_scheduler()(), &c2.posters, &h2);
    } else {
      run_posters(schedulers::new_thread_scheduler()(), &c2.posters, &h2);
    }
  });
  let evs: Vec<HEv> = lk(&h.evs).clone();
  let mut rep = Report::ok();
  let show = || {
    let hs: Vec<String> = evs.iter().map(|e| format!("{}@{}:{:?}", e.stamp, e.tid, e.k)).collect();
    format!("posters={:?} default={} sched={:?} history=[{}] outcome={}", c.posters, c.default_scheduler, c.sched, hs.join(" "), out.describe())
  };
  rep.sample = Some(show());
  let fail = |m: String| Some(format!("{} | {}", m, show()));
  let find = |k: &HK| evs.iter().find(|e| e.k == *k);
  let ntasks = *lk(&h.next_task);
  let naborts_called = evs.iter().filter(|e| matches!(e.k, HK::AbortCall(_))).count();
  let abort_rets: Vec<u64> = evs.iter().filter(|e| matches!(e.k, HK::AbortRet(_))).map(|e| e.stamp).collect();
  rep.classes.push(format!("tasks:{}", ntasks.min(6)));
  if naborts_called > 0 {
    rep.classes.push("with-abort".into());
  }
  if c.posters.iter().flatten().any(|o| *o == POp::Post(TaskBody::CallsAbort)) {
    rep.classes.push("abort-from-inside-a-task".into());
  }
  if c.default_scheduler {
    rep.classes.push("default-scheduler".into());
  }
  use arx_rt::Kind::*;
  match out.kind {
    Done | Quiescent => {}
    StepBudget if out.clock >= 1_000_000_000 => {
      // the budget went into waiting, not into spinning: a worker that wakes up on a timer
      // (a polling design) while the scenario leaves its scheduler alone never comes to rest,
      // which no statement forbids - inconclusive for this case
      rep.classes.push("aborted:StepBudget(a thread keeps waking up on a timer)".into());
      return rep;
    }
    _ => {
      rep.fail = fail(format!("execution ended with {:?}", out.kind));
      return rep;
    }
  }
  if !out.main_finished() || out.threads.iter().any(|t| !t.lib && !t.finished) {
    rep.fail = fail("a post() / abort() call never returned".into());
    return rep;
  }
  // each task starts at most once
  for id in 0..ntasks {
    let starts = evs.iter().filter(|e| e.k == HK::TaskStart(id)).count();
    if starts > 1 {
      rep.fail = fail(format!("task {} ran {} times", id, starts));
      return rep;
    }
  }
  if c.default_scheduler {
    // synchronous: the task ends before post returns, on the caller's thread
    for id in 0..ntasks {
      match (find(&HK::PostCall(id)), find(&HK::TaskStart(id)), find(&HK::TaskEnd(id)), find(&HK::PostRet(id))) {
        (Some(pc), Some(ts), Some(te), Some(pr)) => {
          if !(pc.stamp < ts.stamp && te.stamp < pr.stamp && ts.tid == pc.tid) {
            rep.fail = fail(format!("default scheduler did not run task {} synchronously inside post", id));
            return rep;
          }
        }
        _ => {
          rep.fail = fail(format!("default scheduler: task {} did not run", id));
          return rep;
        }
      }
    }
    rep.nontrivial = ntasks >= 2;
    return rep;
  }
  // one task at a time, on one library thread that is not a poster
  let mut intervals: Vec<(u64, u64, usize, usize)> = Vec::new();
  for id in 0..ntasks {
    if let Some(ts) = find(&HK::TaskStart(id)) {
      let te = find(&HK::TaskEnd(id)).map(|e| e.stamp).unwrap_or(u64::MAX);
      intervals.push((ts.stamp, te, id, ts.tid));
      if !ts.lib {
        rep.fail = fail(format!("task {} ran on a poster's thread", id));
        return rep;
      }
    }
  }
  intervals.sort();
  for w in intervals.windows(2) {
    if w[1].0 < w[0].1 {
      rep.fail = fail(format!("tasks {} and {} overlapped", w[0].2, w[1].2));
      return rep;
    }
    if w[1].3 != w[0].3 {
      rep.fail = fail("tasks ran on different threads".into());
      return rep;
    }
  }
  // FIFO up to concurrency of the posts
  for a in 0..ntasks {
    for b in 0..ntasks {
      if let (Some(pra), Some(pcb), Some(sa), Some(sb)) =
        (find(&HK::PostRet(a)), find(&HK::PostCall(b)), find(&HK::TaskStart(a)), find(&HK::TaskStart(b)))
      {
        if pra.stamp < pcb.stamp && sa.stamp > sb.stamp {
          rep.fail = fail(format!("task {} was posted before task {} but ran after it", a, b));
          return rep;
        }
      }
    }
  }
  let first_abort_ret = abort_rets.iter().min().copied();
  if let Some(ar) = first_abort_ret {
    // nothing posted after an abort returned ever runs
    for id in 0..ntasks {
      if let (Some(pc), Some(_)) = (find(&HK::PostCall(id)), find(&HK::TaskStart(id))) {
        if pc.stamp > ar {
          rep.fail = fail(format!("task {} was posted after abort() had returned and still ran", id));
          return rep;
        }
      }
    }
    // at most the task already taken from the queue starts after abort returned
    let late: Vec<usize> = intervals.iter().filter(|i| i.0 > ar).map(|i| i.2).collect();
    if late.len() > 1 {
      rep.fail = fail(format!("tasks {:?} were taken from the queue after abort() had returned", late));
      return rep;
    }
    // the worker terminates
    if out.threads.iter().any(|t| t.lib && !t.finished) {
      rep.fail = fail("abort() was called but the worker thread did not terminate".into());
      return rep;
    }
  } else if naborts_called == 0 {
    // no abort: every posted task runs (no lost wake-up), the worker is merely parked
    for id in 0..ntasks {
      if find(&HK::PostRet(id)).is_some() && find(&HK::TaskEnd(id)).is_none() {
        rep.fail = fail(format!("task {} was posted with no abort pending and never ran (lost wake-up)", id));
        return rep;
      }
    }
    if out.threads.iter().any(|t| t.lib && t.finished) {
      rep.fail = fail("the worker thread terminated although abort() was never called".into());
      return rep;
    }
  }
  let posters_used = c.posters.iter().filter(|p| !p.is_empty()).count();
  rep.nontrivial = ntasks >= 2 && (naborts_called > 0 || (posters_used >= 2 && out.switches >= 4));
  rep
}

// ---------------------------------------------------------------------------------------
// C18

#[derive(Clone, Debug, Serialize, Deserialize)]
pub struct C18Case {
  pub script: Vec<Ev>,
  /// 0 = Subject pushed by an emitter thread, 1 = the same through observe_on(new thread),
  /// 2 = synchronous cold source
  pub via: u8,
  /// poll once with another waker first (a future may be polled with a different waker every
  /// time; the latest one must be woken)
  #[serde(default)]
  pub peek_first: bool,
  /// 1 = a clone of the future is made and dropped at once, 2 = the clone is polled once
  /// (with a waker of its own) and then dropped; the original must still resolve
  #[serde(default)]
  pub clone_drop: u8,
  pub sched: SchedJson,
}

/// `x.clone()` if the type is Clone, None otherwise (so that the harness still builds should
/// the future lose its Clone impl): inherent method beats the trait method
struct MaybeClone<'a, T>(&'a T);
impl<'a, T: Clone> MaybeClone<'a, T> {
  fn get(&self) -> Option<T> {
    Some(self.0.clone())
  }
}
trait NoClone<T> {
  fn get(&self) -> Option<T>;
}
impl<'a, T> NoClone<T> for MaybeClone<'a, T> {
  fn get(&self) -> Option<T> {
    None
  }
}

struct WakeFlag {
  m: arx_rt::stdx::sync::Mutex<bool>,
  cv: arx_rt::stdx::sync::Condvar,
}

impl std::task::Wake for WakeFlag {
  fn wake(self: Arc<Self>) {
    *self.m.lock().unwrap() = true;
    self.cv.notify_one();
  }
}

#[derive(Default, Clone, Debug)]
struct C18Log {
  polls_pending: usize,
  ready_stamp: Option<u64>,
  terminal_call: Option<u64>,
  result: Option<Result<Vec<P>, u32>>,
}

fn c18_strategy(_ctx: &Ctx) -> BoxedStrategy<C18Case> {
  (0usize..=5, any::<bool>(), 0u8..=2, prop::bool::weighted(0.3), prop_oneof![4 => Just(0u8), 1 => Just(1u8), 1 => Just(2u8)], sched_strategy())
    .prop_map(|(len, err, via, peek_first, clone_drop, sched)| {
      let mut script: Vec<Ev> = (0..len).map(|i| Ev::N(100 + i as i64)).collect();
      script.push(if err { Ev::E(7) } else { Ev::C });
      C18Case { script, via, peek_first, clone_drop, sched }
    })
    .boxed()
}

fn c18_check(_ctx: &Ctx, c: &C18Case) -> Report {
  let log = Arc::new(Mutex::new(C18Log::default()));
  let (l2, c2) = (log.clone(), c.clone());
  let cfg = arx_rt::Config { schedule: c.sched.to_schedule(), max_steps: 60_000, fuel: 100_000 };
  let out = crate::real::rt_run(cfg, move || {
    let ctx = CaseCtx::new();
    let subj: rx_inst::subjects::subject::Subject<'static, V> = rx_inst::subjects::subject::Subject::new();
    let source: Observable<'static, V> = match c2.via {
      0 => subj.observable(),
      1 => subj.observable().observe_on(schedulers::new_thread_scheduler()),
      _ => {
        let (script, ctx2) = (c2.script.clone(), ctx.clone());
        Observable::create(move |s: Observer<'static, V>| {
          for ev in &script {
            match ev {
              Ev::N(i) => s.next(V::new(&ctx2, P::I(*i))),
              Ev::E(code) => s.error(mk_err(*code)),
              Ev::C => s.complete(),
            }
          }
        })
      }
    };
    let mut fut = source.to_vec();
    let emitter = if c2.via < 2 {
      let (subj, script, ctx2, l3) = (subj.clone(), c2.script.clone(), ctx.clone(), l2.clone());
      Some(arx_rt::spawn_named("emitter", move || {
        for ev in &script {
          match ev {
            Ev::N(i) => subj.next(V::new(&ctx2, P::I(*i))),
            Ev::E(code) => {
              lk(&l3).terminal_call = Some(arx_rt::stamp());
              subj.error(mk_err(*code))
            }
            Ev::C => {
              lk(&l3).terminal_call = Some(arx_rt::stamp());
              subj.complete()
            }
          }
        }
      }))
    } else {
      lk(&l2).terminal_call = Some(0);
      None
    };
    // a minimal block_on on the facade's Mutex + Condvar
    let flag = Arc::new(WakeFlag { m: arx_rt::stdx::sync::Mutex::new(false), cv: arx_rt::stdx::sync::Condvar::new() });
    let waker = std::task::Waker::from(flag.clone());
    let mut cx = std::task::Context::from_waker(&waker);
    let mut early = None;
    if c2.clone_drop > 0 {
      #[allow(unused_imports)]
      use NoClone as _;
      if let Some(mut other_handle) = MaybeClone(&fut).get() {
        if c2.clone_drop == 2 {
          let other = Arc::new(WakeFlag { m: arx_rt::stdx::sync::Mutex::new(false), cv: arx_rt::stdx::sync::Condvar::new() });
          let w3 = std::task::Waker::from(other);
          let mut cx3 = std::task::Context::from_waker(&w3);
          let _ = std::future::Future::poll(std::pin::Pin::new(&mut other_handle), &mut cx3);
          // the original is polled (again) below with its own waker, as a future polled with a
          // new waker must be
        }
        drop(other_handle);
      }
    }
    if c2.peek_first {
      // somebody else looks at the future once, with a waker of their own
      let other = Arc::new(WakeFlag { m: arx_rt::stdx::sync::Mutex::new(false), cv: arx_rt::stdx::sync::Condvar::new() });
      let w2 = std::task::Waker::from(other);
      let mut cx2 = std::task::Context::from_waker(&w2);
      if let std::task::Poll::Ready(x) = std::future::Future::poll(std::pin::Pin::new(&mut fut), &mut cx2) {
        lk(&l2).ready_stamp = Some(arx_rt::stamp());
        early = Some(x);
      } else {
        lk(&l2).polls_pending += 1;
      }
    }
    let res = loop {
      if let Some(x) = early.take() {
        break x;
      }
      match std::future::Future::poll(std::pin::Pin::new(&mut fut), &mut cx) {
        std::task::Poll::Ready(x) => {
          lk(&l2).ready_stamp = Some(arx_rt::stamp());
          break x;
        }
        std::task::Poll::Pending => {
          lk(&l2).polls_pending += 1;
          let g = flag.m.lock().unwrap();
          let mut g = flag.cv.wait_while(g, |f| !*f).unwrap();
          *g = false;
        }
      }
    };
    let r = match res {
      Ok(v) => Ok(v.read().unwrap().iter().map(|x| x.p.clone()).collect::<Vec<P>>()),
      Err(e) => Err(code_of(&e)),
    };
    lk(&l2).result = Some(r);
    if let Some(e) = emitter {
      e.join();
    }
    // let a scheduler thread finish
    arx_rt::sleep_ns(1_000_000_000);
  });
  let l = lk(&log).clone();
  let mut rep = Report::ok();
  let show = || format!("script={} via={} peek_first={} clone_drop={} sched={:?} => {:?} outcome={}", show_script(&c.script), c.via, c.peek_first, c.clone_drop, c.sched, l, out.describe());
  rep.sample = Some(show());
  rep.classes.push(format!("via:{}", c.via));
  if c.clone_drop > 0 {
    rep.classes.push(format!("clone-dropped:{}", c.clone_drop));
  }
  rep.nontrivial = l.polls_pending >= 1;
  let fail = |m: String| Some(format!("{} | {}", m, show()));
  let expected: Result<Vec<P>, u32> = match c.script.last() {
    Some(Ev::E(code)) => Err(*code),
    _ => Ok(c.script.iter().filter_map(|e| if let Ev::N(i) = e { Some(P::I(*i)) } else { None }).collect()),
  };
  match &l.result {
    None => {
      rep.fail = fail(format!("the future never became ready although the source terminated ({:?})", out.kind));
      return rep;
    }
    Some(r) => {
      if *r != expected {
        rep.fail = fail(format!("the future yielded {:?}, expected {:?}", r, expected));
        return rep;
      }
    }
  }
  if let (Some(ready), Some(term)) = (l.ready_stamp, l.terminal_call) {
    if ready < term {
      rep.fail = fail("the future became ready before the source terminated".into());
      return rep;
    }
  }
  use arx_rt::Kind::*;
  if !matches!(out.kind, Done | Quiescent) {
    rep.fail = fail(format!("execution ended with {:?}", out.kind));
  }
  rep
}

pub fn properties() -> Vec<Property> {
  vec![
    Property {
      id: "C08",
      rule: "cases = 1..3 poster threads with 0..4 operations each from {post(plain | yields k | posts another task | calls abort), abort} on one new-thread scheduler (8 %: the default scheduler), generated schedule incl. LIFO/FIFO notify choice; oracle over the stamped history: at-most-once, one at a time on one non-poster thread, FIFO up to concurrency of the posts, nothing posted after abort returned runs, at most the task already taken starts after abort returned, abort => worker terminates, no abort => every task runs and the worker is parked, every call returns; non-trivial = >= 2 tasks and (an abort, or >= 2 posters with >= 4 thread switches)",
      assumptions: vec!["spurious condvar wake-ups are not injected (wait_while re-tests its condition)"],
      subs: vec![mk_sub("queue", (1500, 30_000), c08_strategy, c08_check)],
    },
    Property {
      id: "C18",
      rule: "cases = script of 0..5 items + complete/error pushed by an emitter thread into a Subject (directly or through observe_on(new thread)) or played synchronously, awaited by a block_on built on the facade's Mutex+Condvar, generated schedule; oracle = block_on returns, never before the terminal call started, with exactly the items / the error payload; non-trivial = at least one Pending poll happened",
      assumptions: vec!["the waker is the one std::task::Wake gives for an Arc<flag + condvar>"],
      subs: vec![mk_sub("to_vec", (1200, 25_000), c18_strategy, c18_check)],
    },
  ]
}
