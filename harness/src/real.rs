//! AST -> Observable on the instrumented copy of the crate; sources, recorders, driver.

use crate::ast::*;
use crate::val::*;
use rx_inst::prelude::*;
use serde::{Deserialize, Serialize};
use std::collections::HashMap;
use std::sync::atomic::{AtomicBool, AtomicUsize, Ordering};
use std::sync::{Arc, Mutex};
use std::time::Duration;

pub type Ob = Observable<'static, V>;

pub const CODE_TIMEOUT: u32 = 9_999;
pub const CODE_FOREIGN: u32 = 9_998;

pub fn code_of(e: &RxError) -> u32 {
  if let Some(p) = e.downcast_ref::<ErrPayload>() {
    p.0
  } else if let Some(io) = e.downcast_ref::<std::io::Error>() {
    if io.kind() == std::io::ErrorKind::TimedOut {
      CODE_TIMEOUT
    } else {
      CODE_FOREIGN
    }
  } else {
    CODE_FOREIGN
  }
}

pub fn mk_err(c: u32) -> RxError {
  RxError::from_error(ErrPayload(c))
}

fn lk<T>(m: &Mutex<T>) -> std::sync::MutexGuard<'_, T> {
  match m.lock() {
    Ok(g) => g,
    Err(p) => p.into_inner(),
  }
}

// ---------------------------------------------------------------------------------------
// observations

#[derive(Clone, Debug, PartialEq, Eq, Serialize, Deserialize)]
pub enum Rk {
  N(P),
  E(u32),
  C,
}

impl Rk {
  pub fn show(&self) -> String {
    match self {
      Rk::N(p) => p.show(),
      Rk::E(c) => format!("E{}", c),
      Rk::C => "C".into(),
    }
  }
  pub fn is_terminal(&self) -> bool {
    !matches!(self, Rk::N(_))
  }
}

pub fn show_trace(t: &[Rk]) -> String {
  format!("<{}>", t.iter().map(|e| e.show()).collect::<Vec<_>>().join(" "))
}

#[derive(Clone, Debug, Serialize)]
pub struct RecEv {
  pub k: Rk,
  pub tid: usize,
  pub lib_thread: bool,
  pub start: u64,
  pub end: u64,
  pub vt: u64,
}

#[derive(Clone, Debug, Serialize)]
pub struct Attempt {
  pub stamp: u64,
  pub was_subscribed: bool,
  pub ev: Ev,
}

#[derive(Clone, Debug, Serialize)]
pub struct ProbeOut {
  pub sid: usize,
  pub sub_no: usize,
  pub at: u64,
  /// thread on which the source's subscribe function ran
  pub tid: usize,
  pub on_lib_thread: bool,
  pub attempts: Vec<Attempt>,
  /// is_subscribed() of the observer the source was handed, after the actions and the
  /// sentinel round (before the forced final unsubscribe)
  pub final_sub: bool,
}

struct Probe {
  sid: usize,
  sub_no: usize,
  at: u64,
  tid: usize,
  on_lib_thread: bool,
  observer: Option<Observer<'static, V>>,
  attempts: Vec<Attempt>,
}

#[derive(Default)]
pub struct Stats {
  probes: Mutex<Vec<Probe>>,
  sub_counts: Mutex<HashMap<usize, usize>>,
  pub factory_calls: Mutex<HashMap<usize, usize>>,
  pub tap_log: Mutex<Vec<Rk>>,
}

impl Stats {
  fn next_sub_no(&self, sid: usize) -> usize {
    let mut m = lk(&self.sub_counts);
    let e = m.entry(sid).or_insert(0);
    let r = *e;
    *e += 1;
    r
  }
  fn new_probe(&self, sid: usize, o: &Observer<'static, V>) -> (usize, usize) {
    let sub_no = self.next_sub_no(sid);
    let at = arx_rt::stamp();
    let mut p = lk(&self.probes);
    p.push(Probe {
      sid,
      sub_no,
      at,
      tid: arx_rt::tid(),
      on_lib_thread: arx_rt::thread_is_lib(),
      observer: Some(o.clone()),
      attempts: Vec::new(),
    });
    (p.len() - 1, sub_no)
  }
  /// `stamp` is taken before `was` is sampled: a stamp later than the return of an
  /// unsubscribe call means that the sample was taken after that return
  fn attempt(&self, pid: usize, stamp: u64, was: bool, ev: &Ev) {
    lk(&self.probes)[pid].attempts.push(Attempt { stamp, was_subscribed: was, ev: ev.clone() });
  }
  fn factory_call(&self, id: usize) {
    *lk(&self.factory_calls).entry(id).or_insert(0) += 1;
  }
  pub fn sub_count(&self, sid: usize) -> usize {
    *lk(&self.sub_counts).get(&sid).unwrap_or(&0)
  }
  pub fn sub_counts(&self) -> HashMap<usize, usize> {
    lk(&self.sub_counts).clone()
  }
}

// ---------------------------------------------------------------------------------------
// sources

#[derive(Clone)]
struct ScriptIter {
  ctx: Arc<CaseCtx>,
  items: Arc<Vec<i64>>,
  idx: usize,
}

impl Iterator for ScriptIter {
  type Item = V;
  fn next(&mut self) -> Option<V> {
    arx_rt::burn(1);
    let r = self.items.get(self.idx).map(|i| V::new(&self.ctx, P::I(*i)));
    self.idx += 1;
    r
  }
}

#[derive(Clone)]
struct EndlessIter {
  ctx: Arc<CaseCtx>,
  next: i64,
  /// report a (huge) upper bound through size_hint, as `0..i64::MAX` would: the iterator
  /// is endless for every practical purpose either way
  bounded_hint: bool,
}

impl Iterator for EndlessIter {
  type Item = V;
  fn next(&mut self) -> Option<V> {
    arx_rt::burn(1);
    let r = V::new(&self.ctx, P::I(self.next));
    self.next = self.next.wrapping_add(1);
    Some(r)
  }
  fn size_hint(&self) -> (usize, Option<usize>) {
    if self.bounded_hint {
      (usize::MAX, Some(usize::MAX))
    } else {
      (0, None)
    }
  }
}

struct HotCore {
  subs: Mutex<Vec<(usize, Observer<'static, V>)>>,
  dead: AtomicBool,
}

#[derive(Clone)]
pub enum Hot {
  Harness(Arc<HotCore>),
  Subject(subjects::Subject<'static, V>),
  Behavior(subjects::BehaviorSubject<'static, V>),
  Replay(subjects::ReplaySubject<'static, V>),
  Async(subjects::AsyncSubject<'static, V>),
}

impl Hot {
  fn new(kind: &HotKind, ctx: &Arc<CaseCtx>) -> Hot {
    match kind {
      HotKind::Harness => {
        Hot::Harness(Arc::new(HotCore { subs: Mutex::new(Vec::new()), dead: AtomicBool::new(false) }))
      }
      HotKind::Subject => Hot::Subject(subjects::Subject::new()),
      HotKind::Behavior(i) => Hot::Behavior(subjects::BehaviorSubject::new(V::new(ctx, P::I(*i)))),
      HotKind::Replay => Hot::Replay(subjects::ReplaySubject::new()),
      HotKind::Async => Hot::Async(subjects::AsyncSubject::new()),
    }
  }

  pub fn observer_count(&self) -> Option<usize> {
    let n = match self {
      Hot::Harness(_) => return None,
      Hot::Subject(s) => s.verif_observer_count(),
      Hot::Behavior(s) => s.verif_observer_count(),
      Hot::Replay(s) => s.verif_observer_count(),
      Hot::Async(s) => s.verif_observer_count(),
    };
    // usize::MAX = the accessor could not be generated for this tree (rx_inst/build.rs)
    if n == usize::MAX {
      None
    } else {
      Some(n)
    }
  }
}

#[derive(Clone)]
pub struct Env {
  pub ctx: Arc<CaseCtx>,
  pub hots: Arc<Vec<Hot>>,
  pub stats: Arc<Stats>,
  pub illformed: bool,
}

impl Env {
  pub fn new(case: &Case) -> Env {
    let ctx = CaseCtx::new();
    let hots = case.hots.iter().map(|k| Hot::new(k, &ctx)).collect();
    Env { ctx, hots: Arc::new(hots), stats: Arc::new(Stats::default()), illformed: case.hot_illformed }
  }

  pub fn emit(&self, i: usize, ev: &Ev) {
    let ctx = &self.ctx;
    match &self.hots[i] {
      Hot::Harness(core) => {
        let snap: Vec<(usize, Observer<'static, V>)> = lk(&core.subs).clone();
        for (pid, o) in snap {
          arx_rt::burn(1);
          let stamp = arx_rt::stamp();
          let was = o.is_subscribed();
          self.stats.attempt(pid, stamp, was, ev);
          match ev {
            Ev::N(i) => o.next(V::new(ctx, P::I(*i))),
            Ev::E(c) => o.error(mk_err(*c)),
            Ev::C => o.complete(),
          }
        }
        if ev.is_terminal() && !self.illformed {
          core.dead.store(true, Ordering::SeqCst);
          lk(&core.subs).clear();
        }
      }
      Hot::Subject(s) => match ev {
        Ev::N(i) => s.next(V::new(ctx, P::I(*i))),
        Ev::E(c) => s.error(mk_err(*c)),
        Ev::C => s.complete(),
      },
      Hot::Behavior(s) => match ev {
        Ev::N(i) => s.next(V::new(ctx, P::I(*i))),
        Ev::E(c) => s.error(mk_err(*c)),
        Ev::C => s.complete(),
      },
      Hot::Replay(s) => match ev {
        Ev::N(i) => s.next(V::new(ctx, P::I(*i))),
        Ev::E(c) => s.error(mk_err(*c)),
        Ev::C => s.complete(),
      },
      Hot::Async(s) => match ev {
        Ev::N(i) => s.next(V::new(ctx, P::I(*i))),
        Ev::E(c) => s.error(mk_err(*c)),
        Ev::C => s.complete(),
      },
    }
  }

  fn hot_observable(&self, sid: usize, i: usize) -> Ob {
    let stats = self.stats.clone();
    let tok = CTok::new(&self.ctx);
    match &self.hots[i] {
      Hot::Harness(core) => {
        let core = core.clone();
        Observable::create(move |s: Observer<'static, V>| {
          let _t = &tok;
          if !s.is_subscribed() {
            // a subscription made on behalf of an observer that has already ended is
            // invisible (not counted, not probed), on both sides of every comparison
            return;
          }
          let (pid, _) = stats.new_probe(sid, &s);
          if !core.dead.load(Ordering::SeqCst) {
            lk(&core.subs).push((pid, s));
          }
        })
      }
      other => {
        let inner: Ob = match other {
          Hot::Subject(s) => s.observable(),
          Hot::Behavior(s) => s.observable(),
          Hot::Replay(s) => s.observable(),
          Hot::Async(s) => s.observable(),
          Hot::Harness(_) => unreachable!(),
        };
        // same shape as observables::defer: count, then subscribe the observer itself
        Observable::create(move |s: Observer<'static, V>| {
          let _t = &tok;
          if s.is_subscribed() {
            stats.next_sub_no(sid);
          }
          inner.inner_subscribe(s);
        })
      }
    }
  }

  fn cold(&self, sid: usize, scripts: Vec<Vec<Ev>>, polite: bool) -> Ob {
    let stats = self.stats.clone();
    let ctx = self.ctx.clone();
    let tok = CTok::new(&self.ctx);
    Observable::create(move |s: Observer<'static, V>| {
      let _t = &tok;
      if !s.is_subscribed() {
        return;
      }
      let (pid, k) = stats.new_probe(sid, &s);
      let script = &scripts[k.min(scripts.len() - 1)];
      for ev in script {
        arx_rt::burn(1);
        let stamp = arx_rt::stamp();
        let was = s.is_subscribed();
        stats.attempt(pid, stamp, was, ev);
        if polite && !was {
          break;
        }
        match ev {
          Ev::N(i) => s.next(V::new(&ctx, P::I(*i))),
          Ev::E(c) => s.error(mk_err(*c)),
          Ev::C => s.complete(),
        }
      }
    })
  }

  fn vi(&self, i: i64) -> V {
    V::new(&self.ctx, P::I(i))
  }

  fn build_src(&self, sid: usize, s: &Src) -> Ob {
    let ctx = self.ctx.clone();
    let tok = CTok::new(&self.ctx);
    match s {
      Src::Cold { script, polite } => self.cold(sid, vec![script.clone()], *polite),
      Src::PerSub { scripts, polite } => self.cold(sid, scripts.clone(), *polite),
      Src::Hot(i) => self.hot_observable(sid, *i),
      Src::Just(k) => observables::just(self.vi(*k)),
      Src::FromIter(v) => {
        observables::from_iter(ScriptIter { ctx, items: Arc::new(v.clone()), idx: 0 })
      }
      Src::Range(a, n) => observables::range(*a, *n).map(move |i: i64| {
        let _t = &tok;
        V::new(&ctx, P::I(i))
      }),
      Src::Empty => observables::empty(),
      Src::Never => observables::never(),
      Src::Error(c) => observables::error(mk_err(*c)),
      Src::Start(k) => {
        let k = *k;
        let stats = self.stats.clone();
        observables::start(move || {
          let _t = &tok;
          stats.factory_call(sid);
          V::new(&ctx, P::I(k))
        })
      }
      Src::FromResult(r) => match r {
        Ok(k) => observables::from_result::<V, ErrPayload>(Ok(self.vi(*k))),
        Err(c) => observables::from_result::<V, ErrPayload>(Err(ErrPayload(*c))),
      },
      Src::Something(r) => match r {
        Ok(k) => utils::Something::success(self.vi(*k)).proceed(),
        Err(c) => utils::Something::<V>::error(mk_err(*c)).proceed(),
      },
      Src::Repeat(k) => observables::repeat(self.vi(*k)),
      Src::Endless(a) => observables::from_iter(EndlessIter { ctx, next: *a, bounded_hint: a.rem_euclid(2) == 0 }),
      Src::Interval(ms) => {
        observables::interval(Duration::from_millis(*ms), schedulers::new_thread_scheduler()).map(
          move |n: u64| {
            let _t = &tok;
            V::new(&ctx, P::I(n as i64))
          },
        )
      }
      Src::Timer(ms) => {
        observables::timer(Duration::from_millis(*ms), schedulers::new_thread_scheduler()).map(
          move |_: ()| {
            let _t = &tok;
            V::new(&ctx, P::U)
          },
        )
      }
      Src::IntervalUs(us) => {
        observables::interval(Duration::from_micros(*us), schedulers::new_thread_scheduler()).map(
          move |n: u64| {
            let _t = &tok;
            V::new(&ctx, P::I(n as i64))
          },
        )
      }
      Src::TimerUs(us) => {
        observables::timer(Duration::from_micros(*us), schedulers::new_thread_scheduler()).map(
          move |_: ()| {
            let _t = &tok;
            V::new(&ctx, P::U)
          },
        )
      }
      Src::IntervalDefault(ms) => {
        observables::interval(Duration::from_millis(*ms), schedulers::default_scheduler()).map(
          move |n: u64| {
            let _t = &tok;
            V::new(&ctx, P::I(n as i64))
          },
        )
      }
      Src::TimerDefault(ms) => {
        observables::timer(Duration::from_millis(*ms), schedulers::default_scheduler()).map(
          move |_: ()| {
            let _t = &tok;
            V::new(&ctx, P::U)
          },
        )
      }
    }
  }

  fn tag_inner(&self, o: Observable<'static, Observable<'static, V>>) -> Ob {
    // per-subscription arrival counter, hence defer
    let tok = CTok::new(&self.ctx);
    observables::defer(move || {
      let cnt = Arc::new(AtomicUsize::new(0));
      let tok = tok.clone();
      o.flat_map(move |w: Observable<'static, V>| {
        let idx = cnt.fetch_add(1, Ordering::SeqCst) as i64;
        let tok = tok.clone();
        w.map(move |v: V| {
          let _t = &tok;
          v.with(P::L(vec![P::I(idx), v.p.clone()]))
        })
      })
    })
  }

  /// like tag_inner, but the subscriber of every inner observable leaves after its first item
  fn tag_inner_firsts(&self, o: Observable<'static, Observable<'static, V>>) -> Ob {
    let tok = CTok::new(&self.ctx);
    observables::defer(move || {
      let cnt = Arc::new(AtomicUsize::new(0));
      let tok = tok.clone();
      o.flat_map(move |w: Observable<'static, V>| {
        let idx = cnt.fetch_add(1, Ordering::SeqCst) as i64;
        let tok = tok.clone();
        w.take(1).map(move |v: V| {
          let _t = &tok;
          v.with(P::L(vec![P::I(idx), v.p.clone()]))
        })
      })
    })
  }

  fn apply(&self, op: &Op, o: Ob) -> Ob {
    let ctx = self.ctx.clone();
    let tok = CTok::new(&self.ctx);
    match op.clone() {
      Op::Map(f) => o.map(move |v: V| {
        let _t = &tok;
        arx_rt::burn(1);
        v.with(f.ap(&v.p))
      }),
      Op::Filter(p) => o.filter(move |v: V| {
        let _t = &tok;
        arx_rt::burn(1);
        p.ap(&v.p)
      }),
      Op::Take(n) => o.take(n),
      Op::TakeLast(n) => o.take_last(n),
      Op::TakeWhile(p) => o.take_while(move |v: V| {
        let _t = &tok;
        arx_rt::burn(1);
        p.ap(&v.p)
      }),
      Op::Skip(n) => o.skip(n),
      Op::SkipLast(n) => o.skip_last(n),
      Op::SkipWhile(p) => o.skip_while(move |v: V| {
        let _t = &tok;
        arx_rt::burn(1);
        p.ap(&v.p)
      }),
      Op::First => o.first(),
      Op::Last => o.last(),
      Op::ElementAt(n) => o.element_at(n),
      Op::Distinct => o.distinct_until_changed(),
      Op::Scan(f) => o.scan(move |(a, b): (V, V)| {
        let _t = &tok;
        arx_rt::burn(1);
        a.with(f.ap(&a.p, &b.p))
      }),
      Op::Reduce(f) => o.reduce(move |(a, b): (V, V)| {
        let _t = &tok;
        arx_rt::burn(1);
        a.with(f.ap(&a.p, &b.p))
      }),
      Op::Count => o.count().map(move |n: usize| {
        let _t = &tok;
        V::new(&ctx, P::I(n as i64))
      }),
      Op::Sum => o.sum(),
      Op::SumAndCount => o.sum_and_count().map(move |(s, n): (V, usize)| {
        let _t = &tok;
        s.with(P::L(vec![s.p.clone(), P::I(n as i64)]))
      }),
      Op::Min => o.min(),
      Op::Max => o.max(),
      Op::All(p) => {
        let tok2 = tok.clone();
        o.all(move |v: V| {
          let _t = &tok2;
          arx_rt::burn(1);
          p.ap(&v.p)
        })
        .map(move |b: bool| {
          let _t = &tok;
          V::new(&ctx, P::B(b))
        })
      }
      Op::Contains(k) => o.contains(self.vi(k)).map(move |b: bool| {
        let _t = &tok;
        V::new(&ctx, P::B(b))
      }),
      Op::DefaultIfEmpty(k) => o.default_if_empty(self.vi(k)),
      Op::IgnoreElements => o.ignore_elements(),
      Op::StartWith(v) => o.start_with(ScriptIter { ctx, items: Arc::new(v), idx: 0 }),
      Op::Buffer(n) => o.buffer_with_count(n).map(move |vs: Vec<V>| {
        let _t = &tok;
        V::new(&ctx, P::L(vs.iter().map(|v| v.p.clone()).collect()))
      }),
      Op::Window(n) => self.tag_inner(o.window_with_count(n)),
      Op::WindowCounts(n) => {
        let ctx2 = ctx.clone();
        o.window_with_count(n).flat_map(move |w: Observable<'static, V>| {
          let (ctx3, tok) = (ctx2.clone(), tok.clone());
          w.count().map(move |c: usize| {
            let _t = &tok;
            V::new(&ctx3, P::I(c as i64))
          })
        })
      }
      Op::GroupBy(k) => {
        let k = k.max(1);
        self.tag_inner(o.group_by(move |v: V| {
          let _t = &tok;
          v.p.as_i64().rem_euclid(k)
        }))
      }
      Op::GroupFirsts(k) => {
        let k = k.max(1);
        self.tag_inner_firsts(o.group_by(move |v: V| {
          let _t = &tok;
          v.p.as_i64().rem_euclid(k)
        }))
      }
      Op::WindowFirsts(n) => self.tag_inner_firsts(o.window_with_count(n)),
      Op::Materialize => o.materialize().map(move |m: Material<V>| {
        let _t = &tok;
        match m {
          Material::Next(v) => v.with(P::MNext(Box::new(v.p.clone()))),
          Material::Error(e) => V::new(&ctx, P::MErr(code_of(&e))),
          Material::Complete => V::new(&ctx, P::MComplete),
        }
      }),
      Op::Dematerialize => o
        .map(move |v: V| {
          let _t = &tok;
          match &v.p {
            P::MNext(x) => Material::Next(v.with((**x).clone())),
            P::MErr(c) => Material::Error(mk_err(*c)),
            P::MComplete => Material::Complete,
            _ => Material::Next(v.clone()),
          }
        })
        .dematerialize(),
      Op::Tap => {
        let (s1, s2, s3) = (self.stats.clone(), self.stats.clone(), self.stats.clone());
        let (t1, t2, t3) = (tok.clone(), tok.clone(), tok);
        o.tap(
          move |v: V| {
            let _t = &t1;
            lk(&s1.tap_log).push(Rk::N(v.p.clone()));
          },
          move |e: RxError| {
            let _t = &t2;
            lk(&s2.tap_log).push(Rk::E(code_of(&e)));
          },
          move || {
            let _t = &t3;
            lk(&s3.tap_log).push(Rk::C);
          },
        )
      }
      Op::MapToAny => o.map_to_any().map(move |a| {
        let _t = &tok;
        match a.downcast_ref::<V>() {
          Some(v) => v.clone(),
          None => V::new(&ctx, P::I(-999)),
        }
      }),
      Op::Retry(n) => o.retry(n),
      Op::RetryWhen(p) => o.retry_when(move |e: RxError| {
        let _t = &tok;
        arx_rt::burn(1);
        p.ap(code_of(&e))
      }),
      Op::ObserveOnDefault => o.observe_on(schedulers::default_scheduler()),
      Op::SubscribeOnDefault => o.subscribe_on(schedulers::default_scheduler()),
      Op::ObserveOnNew => o.observe_on(schedulers::new_thread_scheduler()),
      Op::SubscribeOnNew => o.subscribe_on(schedulers::new_thread_scheduler()),
      Op::Delay(ms) => o.delay(Duration::from_millis(ms)),
      Op::Debounce(ms) => o.debounce(Duration::from_millis(ms), schedulers::new_thread_scheduler()),
      Op::Timeout(ms) => o.timeout(Duration::from_millis(ms), schedulers::new_thread_scheduler()),
      Op::Timestamp => o.timestamp().map(move |(_, v): (std::time::SystemTime, V)| {
        let _t = &tok;
        v
      }),
      Op::TimeInterval => o.time_interval().map(move |d: Duration| {
        let _t = &tok;
        V::new(&ctx, P::I(d.as_millis() as i64))
      }),
      Op::RefCount => o.ref_count().observable(),
      Op::ReplayConn => o.replay().observable(),
    }
  }

  pub fn build(&self, n: &Node) -> Ob {
    let ctx = self.ctx.clone();
    let tok = CTok::new(&self.ctx);
    match n {
      Node::Src(sid, s) => self.build_src(*sid, s),
      Node::Un(op, inner) => {
        let o = self.build(inner);
        self.apply(op, o)
      }
      Node::Nary(c, v) => {
        let first = self.build(&v[0]);
        let rest: Vec<Ob> = v[1..].iter().map(|x| self.build(x)).collect();
        let to_l = move |vs: Vec<V>| {
          let _t = &tok;
          V::new(&ctx, P::L(vs.iter().map(|v| v.p.clone()).collect()))
        };
        match c {
          Comb::Merge => first.merge(&rest),
          Comb::Concat => first.concat(&rest),
          Comb::Zip => first.zip(&rest).map(to_l),
          Comb::CombineLatest => first.combine_latest(&rest, to_l),
          Comb::Amb => first.amb(&rest),
          Comb::SequenceEqual => {
            let ctx = self.ctx.clone();
            let tok = CTok::new(&self.ctx);
            first.sequence_equal(&rest).map(move |b: bool| {
              let _t = &tok;
              V::new(&ctx, P::B(b))
            })
          }
        }
      }
      Node::Gate(g, a, b) => {
        let a = self.build(a);
        let b = self.build(b);
        match g {
          Gate::TakeUntil => a.take_until(b),
          Gate::SkipUntil => a.skip_until(b),
          Gate::Sample => a.sample(b),
          Gate::SwitchOnNext => a.switch_on_next(b),
        }
      }
      Node::FlatMap(s, t) => {
        let src = self.build(s);
        let table: Vec<Ob> = t.iter().map(|x| self.build(x)).collect();
        src.flat_map(move |v: V| {
          let _t = &tok;
          arx_rt::burn(1);
          let i = v.p.as_i64().rem_euclid(table.len() as i64) as usize;
          table[i].clone()
        })
      }
      Node::Resume(s, t) => {
        let src = self.build(s);
        let table: Vec<Ob> = t.iter().map(|x| self.build(x)).collect();
        src.on_error_resume_next(move |e: RxError| {
          let _t = &tok;
          arx_rt::burn(1);
          let i = (code_of(&e) as usize) % table.len();
          table[i].clone()
        })
      }
      Node::Defer(did, inner) => {
        let stats = self.stats.clone();
        let o = self.build(inner);
        let did = *did;
        observables::defer(move || {
          let _t = &tok;
          arx_rt::burn(1);
          stats.factory_call(did);
          o.clone()
        })
      }
      Node::ReadySetGo(i, script, inner) => {
        let env = self.clone();
        let (i, script) = (*i, script.clone());
        let o = self.build(inner);
        utils::ready_set_go(
          move || {
            let _t = &tok;
            for ev in &script {
              env.emit(i, ev);
            }
          },
          o,
        )
      }
    }
  }
}

// ---------------------------------------------------------------------------------------
// driver

#[derive(Clone, Debug, Default, Serialize)]
pub struct RunLog {
  /// per recorder: delivered events
  pub recs: Vec<Vec<RecEv>>,
  /// per recorder: (stamp at which subscribe() was called, stamp at which it returned)
  pub sub_marks: Vec<Option<(u64, u64)>>,
  /// per recorder: (call, return) stamps of every unsubscribe
  pub unsub_marks: Vec<Vec<(u64, u64)>>,
  /// after every action: Subscription::is_subscribed() of every recorder (None = not subscribed yet)
  pub timeline: Vec<(u64, Vec<Option<bool>>)>,
  pub probes: Vec<ProbeOut>,
  pub sub_counts: Vec<(usize, usize)>,
  pub factory_calls: Vec<(usize, usize)>,
  pub tap_log: Vec<Rk>,
  /// after every action: observer counts of crate subjects used as hot sources
  pub subj_timeline: Vec<Vec<Option<usize>>>,
  /// observer counts of crate subjects used as hot sources after actions + sentinel
  pub subj_counts: Vec<Option<usize>>,
  /// ... and after the forced final unsubscribe of everything
  pub subj_counts_final: Vec<Option<usize>>,
  /// reactions that fired, as (recorder, reaction index)
  pub reactions_fired: Vec<(usize, usize)>,
  /// (recorder, stamp at entry, stamp at exit) of every subscriber callback, the exit taken
  /// after the callback's reactions ran
  pub cb_spans: Vec<(usize, u64, u64)>,
  /// virtual time (ns) at which every recorder's subscribe call started
  pub sub_vt: Vec<Option<u64>>,
  pub reactions_skipped: Vec<(usize, usize)>,
  /// number of actions fully executed
  pub actions_done: usize,
  /// stamp at which the sentinel round started
  pub sentinel_stamp: u64,
  pub epilogue_done: bool,
  /// is_subscribed() of the Subscription the last publish().connect() returned (before the
  /// final unsubscribe); None = no connection handle is held
  pub conn_is_subscribed: Option<bool>,
  pub lib_threads_total: usize,
  pub lib_threads_alive_end: usize,
  pub live_closures: i64,
  pub live_items: i64,
  pub made_items: i64,
  /// description of the call in progress (for "call did not return" reports)
  pub in_call: Option<String>,
  /// concurrent cases: every library call made by a harness thread, with stamps
  pub call_marks: Vec<CallMark>,
  /// concurrent cases: calls that were entered and have not returned (thread, index, action)
  pub open_calls: Vec<(usize, usize, String)>,
  pub threads_joined: bool,
  pub drained_stamp: u64,
  pub lib_threads_alive_before_final: usize,
  pub final_unsub_vt: u64,
  pub force_unsubscribed: Vec<usize>,
}

pub struct Shared {
  pub publish: Mutex<Option<rx_inst::operators::publish::Publish<'static, V>>>,
  pub connection: Mutex<Option<Subscription<'static>>>,
  pub env: Env,
  pub root: Mutex<Option<Ob>>,
  /// connectable cases with `conn_take_only`: (the recorder that goes through take, the
  /// observable() the others subscribe to)
  pub root_plain: Mutex<Option<(usize, Ob)>>,
  pub subs: Mutex<Vec<Option<Subscription<'static>>>>,
  pub recorders: Vec<Vec<Reaction>>,
  pub log: Arc<Mutex<RunLog>>,
  pub ncount: Vec<AtomicUsize>,
}

fn record(sh: &Arc<Shared>, k: usize, ev: Rk, start: u64) {
  let end = arx_rt::stamp();
  let e = RecEv {
    k: ev,
    tid: arx_rt::tid(),
    lib_thread: arx_rt::thread_is_lib(),
    start,
    end,
    vt: arx_rt::now(),
  };
  lk(&sh.log).recs[k].push(e);
}

pub fn do_subscribe(sh: &Arc<Shared>, k: usize) {
  let root = match lk(&sh.root).clone() {
    Some(r) => r,
    None => return,
  };
  let root = match lk(&sh.root_plain).clone() {
    Some((only, plain)) if only != k => plain,
    _ => root,
  };
  if lk(&sh.log).sub_marks[k].is_some() {
    return;
  }
  {
    let now = arx_rt::now();
    let mut l = lk(&sh.log);
    if k < l.sub_vt.len() {
      l.sub_vt[k] = Some(now);
    }
  }
  let t0 = arx_rt::stamp();
  lk(&sh.log).sub_marks[k] = Some((t0, 0));
  let (s1, s2, s3) = (sh.clone(), sh.clone(), sh.clone());
  let tok = CTok::new(&sh.env.ctx);
  let (t1, t2, t3) = (tok.clone(), tok.clone(), tok);
  let sub = root.subscribe(
    move |v: V| {
      let _t = &t1;
      let start = arx_rt::stamp();
      arx_rt::burn(1);
      arx_rt::yield_point();
      record(&s1, k, Rk::N(v.p.clone()), start);
      let n = s1.ncount[k].fetch_add(1, Ordering::SeqCst);
      for (ri, r) in s1.recorders[k].iter().enumerate() {
        if r.at == n {
          react(&s1, k, ri, &r.what);
        }
      }
      lk(&s1.log).cb_spans.push((k, start, arx_rt::stamp()));
    },
    move |e: RxError| {
      let _t = &t2;
      let start = arx_rt::stamp();
      arx_rt::yield_point();
      record(&s2, k, Rk::E(code_of(&e)), start);
      for (ri, r) in s2.recorders[k].iter().enumerate() {
        if r.at == AT_TERMINAL {
          react(&s2, k, ri, &r.what);
        }
      }
      lk(&s2.log).cb_spans.push((k, start, arx_rt::stamp()));
    },
    move || {
      let _t = &t3;
      let start = arx_rt::stamp();
      arx_rt::yield_point();
      record(&s3, k, Rk::C, start);
      for (ri, r) in s3.recorders[k].iter().enumerate() {
        if r.at == AT_TERMINAL {
          react(&s3, k, ri, &r.what);
        }
      }
      lk(&s3.log).cb_spans.push((k, start, arx_rt::stamp()));
    },
  );
  lk(&sh.subs)[k] = Some(sub);
  let t1 = arx_rt::stamp();
  lk(&sh.log).sub_marks[k] = Some((t0, t1));
}

pub fn do_unsub(sh: &Arc<Shared>, k: usize) {
  let s = lk(&sh.subs)[k].clone();
  if let Some(s) = s {
    let t0 = arx_rt::stamp();
    s.unsubscribe();
    let t1 = arx_rt::stamp();
    lk(&sh.log).unsub_marks[k].push((t0, t1));
  }
}

fn react(sh: &Arc<Shared>, k: usize, ri: usize, what: &React) {
  match what {
    React::UnsubSelf => {
      if lk(&sh.subs)[k].is_some() {
        lk(&sh.log).reactions_fired.push((k, ri));
        do_unsub(sh, k);
      } else {
        lk(&sh.log).reactions_skipped.push((k, ri));
      }
    }
    React::Emit(i, ev) => {
      lk(&sh.log).reactions_fired.push((k, ri));
      sh.env.emit(*i, ev);
    }
    React::Subscribe(j) => {
      if lk(&sh.log).sub_marks[*j].is_none() {
        lk(&sh.log).reactions_fired.push((k, ri));
        do_subscribe(sh, *j);
      } else {
        lk(&sh.log).reactions_skipped.push((k, ri));
      }
    }
  }
}

fn snapshot_timeline(sh: &Arc<Shared>) {
  let subs: Vec<Option<Subscription<'static>>> = lk(&sh.subs).clone();
  let row: Vec<Option<bool>> = subs.iter().map(|s| s.as_ref().map(|s| s.is_subscribed())).collect();
  let st = arx_rt::stamp();
  lk(&sh.log).timeline.push((st, row));
}

#[derive(Clone, Debug)]
pub struct RunOpts {
  /// settle (let library threads run until idle) after every action
  pub settle: bool,
  /// virtual time allowed to pass at the very end so that worker threads can exit (ms)
  pub final_wait_ms: u64,
  /// concurrent cases: virtual time allowed to pass after the harness threads finished
  pub drain_ms: u64,
  /// emit the sentinel value into every hot source in the epilogue
  pub sentinel: bool,
}

impl Default for RunOpts {
  fn default() -> Self {
    RunOpts { settle: true, final_wait_ms: 10_000, drain_ms: 0, sentinel: true }
  }
}

pub fn setup(case: &Case, log: &Arc<Mutex<RunLog>>) -> (Env, Arc<Shared>) {
  let nrec = case.recorders.len();
  {
    let mut l = lk(log);
    l.recs = vec![Vec::new(); nrec];
    l.sub_marks = vec![None; nrec];
    l.unsub_marks = vec![Vec::new(); nrec];
    l.sub_vt = vec![None; nrec];
  }
  let env = Env::new(case);
  let src = env.build(&case.root);
  let mut publish = None;
  let root = match &case.conn {
    None => src,
    Some(ConnKind::Publish) => {
      let p = src.publish();
      let o = p.observable();
      publish = Some(p);
      o
    }
    Some(ConnKind::RefCount) => src.ref_count().observable(),
    Some(ConnKind::Replay) => src.replay().observable(),
  };
  let root_plain = match (&case.conn, case.conn_take, case.conn_take_only) {
    (Some(_), Some(_), Some(k)) => Some((k, root.clone())),
    _ => None,
  };
  let root = match (&case.conn, case.conn_take) {
    (Some(_), Some(n)) => root.take(n),
    _ => root,
  };
  let sh = Arc::new(Shared {
    publish: Mutex::new(publish),
    connection: Mutex::new(None),
    env: env.clone(),
    root: Mutex::new(Some(root)),
    root_plain: Mutex::new(root_plain),
    subs: Mutex::new(vec![None; nrec]),
    recorders: case.recorders.clone(),
    log: log.clone(),
    ncount: (0..nrec).map(|_| AtomicUsize::new(0)).collect(),
  });
  (env, sh)
}

pub fn run_action(sh: &Arc<Shared>, a: &Action) {
  match a {
    Action::Subscribe(k) => do_subscribe(sh, *k),
    Action::Emit(i, ev) => sh.env.emit(*i, ev),
    Action::Unsub(k) => do_unsub(sh, *k),
    Action::DropUsing(k) => {
      let s = lk(&sh.subs)[*k].clone();
      if let Some(s) = s {
        let t0 = arx_rt::stamp();
        let u = utils::Using::new(s);
        drop(u);
        let t1 = arx_rt::stamp();
        lk(&sh.log).unsub_marks[*k].push((t0, t1));
      }
    }
    Action::DropUsingUnwinding(k) => {
      let s = lk(&sh.subs)[*k].clone();
      if let Some(s) = s {
        let t0 = arx_rt::stamp();
        let u = utils::Using::new(s);
        arx_rt::facade::with_simulated_unwinding(move || drop(u));
        let t1 = arx_rt::stamp();
        lk(&sh.log).unsub_marks[*k].push((t0, t1));
      }
    }
    Action::Advance(ms) => arx_rt::sleep_ns(ms * 1_000_000),
    Action::DropObservable => {
      let root = lk(&sh.root).take();
      drop(root);
      let plain = lk(&sh.root_plain).take();
      drop(plain);
    }
    Action::IsSubscribed(k) => {
      let s = lk(&sh.subs)[*k].clone();
      if let Some(s) = s {
        let _ = s.is_subscribed();
      }
    }
    Action::Connect => {
      let p = lk(&sh.publish).clone();
      if let Some(p) = p {
        // (the histories call connect again only once the previous connection is over: its
        // handle is then simply dropped)
        let c = p.connect();
        *lk(&sh.connection) = Some(c);
      }
    }
    Action::Disconnect => {
      let c = lk(&sh.connection).take();
      if let Some(c) = c {
        c.unsubscribe();
      }
    }
  }
}

/// The body of a sequential case; runs as thread 0 of an execution.
pub fn drive(case: &Case, opts: &RunOpts, log: Arc<Mutex<RunLog>>) {
  let (env, sh) = setup(case, &log);
  for (ai, a) in case.actions.iter().enumerate() {
    lk(&log).in_call = Some(format!("action {} {:?}", ai, a));
    run_action(&sh, a);
    if opts.settle {
      arx_rt::settle();
    }
    snapshot_timeline(&sh);
    let counts: Vec<Option<usize>> = env.hots.iter().map(|h| h.observer_count()).collect();
    let mut l = lk(&log);
    l.subj_timeline.push(counts);
    l.in_call = None;
    l.actions_done = ai + 1;
  }
  epilogue(case, opts, &log, env, sh);
}

#[derive(Clone, Debug, Serialize)]
pub struct CallMark {
  pub thread: usize,
  pub idx: usize,
  pub action: Action,
  pub call: u64,
  pub ret: u64,
  pub vt_call: u64,
  pub vt_ret: u64,
  pub tid: usize,
}

/// The body of a concurrent case: `case.actions` run on the main thread first, then every
/// list of `threads` runs on its own harness thread; every library call is bracketed by
/// stamps. Afterwards virtual time passes so that scheduler threads drain, then the
/// common epilogue runs.
pub fn drive_conc(case: &Case, threads: &[Vec<Action>], opts: &RunOpts, log: Arc<Mutex<RunLog>>) {
  let (env, sh) = setup(case, &log);
  let run_marked = |sh: &Arc<Shared>, log: &Arc<Mutex<RunLog>>, thread: usize, idx: usize, a: &Action| {
    lk(log).open_calls.push((thread, idx, format!("{:?}", a)));
    let (call, vt_call) = (arx_rt::stamp(), arx_rt::now());
    run_action(sh, a);
    let (ret, vt_ret) = (arx_rt::stamp(), arx_rt::now());
    let mut l = lk(log);
    l.open_calls.retain(|x| !(x.0 == thread && x.1 == idx));
    l.call_marks.push(CallMark { thread, idx, action: a.clone(), call, ret, vt_call, vt_ret, tid: arx_rt::tid() });
  };
  for (ai, a) in case.actions.iter().enumerate() {
    run_marked(&sh, &log, 0, ai, a);
  }
  let mut handles = Vec::new();
  for (ti, acts) in threads.iter().enumerate() {
    let (sh2, log2, acts2) = (sh.clone(), log.clone(), acts.clone());
    handles.push(arx_rt::spawn_named(&format!("h{}", ti + 1), move || {
      for (ai, a) in acts2.iter().enumerate() {
        let run_marked = |thread: usize, idx: usize, a: &Action| {
          lk(&log2).open_calls.push((thread, idx, format!("{:?}", a)));
          let (call, vt_call) = (arx_rt::stamp(), arx_rt::now());
          run_action(&sh2, a);
          let (ret, vt_ret) = (arx_rt::stamp(), arx_rt::now());
          let mut l = lk(&log2);
          l.open_calls.retain(|x| !(x.0 == thread && x.1 == idx));
          l.call_marks.push(CallMark { thread, idx, action: a.clone(), call, ret, vt_call, vt_ret, tid: arx_rt::tid() });
        };
        run_marked(ti + 1, ai, a);
      }
    }));
  }
  for h in handles {
    h.join();
  }
  lk(&log).threads_joined = true;
  // let scheduler threads drain what was handed to them
  if opts.drain_ms > 0 {
    arx_rt::sleep_ns(opts.drain_ms * 1_000_000);
  }
  arx_rt::settle();
  snapshot_timeline(&sh);
  lk(&log).drained_stamp = arx_rt::stamp();
  epilogue(case, opts, &log, env, sh);
}

fn epilogue(case: &Case, opts: &RunOpts, log: &Arc<Mutex<RunLog>>, env: Env, sh: Arc<Shared>) {
  let nrec = case.recorders.len();
  let log = log.clone();
  // ---- epilogue 1: sentinel round on every hot source
  lk(&log).in_call = Some("sentinel round".into());
  lk(&log).sentinel_stamp = arx_rt::stamp();
  if opts.sentinel {
    for i in 0..case.hots.len() {
      env.emit(i, &Ev::N(SENTINEL));
    }
  }
  if opts.settle {
    arx_rt::settle();
  }
  snapshot_timeline(&sh);
  // ---- epilogue 2: final probes
  {
    let mut outs = Vec::new();
    let probes: Vec<(usize, usize, u64, usize, bool, Option<Observer<'static, V>>, Vec<Attempt>)> = {
      let mut p = lk(&env.stats.probes);
      p.iter_mut()
        .map(|x| (x.sid, x.sub_no, x.at, x.tid, x.on_lib_thread, x.observer.take(), std::mem::take(&mut x.attempts)))
        .collect()
    };
    for (sid, sub_no, at, tid, on_lib_thread, o, attempts) in probes {
      let final_sub = o.as_ref().map(|o| o.is_subscribed()).unwrap_or(false);
      outs.push(ProbeOut { sid, sub_no, at, tid, on_lib_thread, attempts, final_sub });
    }
    let counts: Vec<Option<usize>> = env.hots.iter().map(|h| h.observer_count()).collect();
    let conn_is_subscribed = lk(&sh.connection).as_ref().map(|c| c.is_subscribed());
    let mut l = lk(&log);
    l.conn_is_subscribed = conn_is_subscribed;
    l.probes = outs;
    l.subj_counts = counts;
    let mut sc: Vec<(usize, usize)> = env.stats.sub_counts().into_iter().collect();
    sc.sort();
    l.sub_counts = sc;
    let mut fc: Vec<(usize, usize)> = lk(&env.stats.factory_calls).clone().into_iter().collect();
    fc.sort();
    l.factory_calls = fc;
    l.tap_log = lk(&env.stats.tap_log).clone();
  }
  // ---- epilogue 3: end everything that is still running, let worker threads exit
  lk(&log).in_call = Some("final unsubscribe".into());
  lk(&log).lib_threads_alive_before_final = arx_rt::lib_threads_alive();
  lk(&log).final_unsub_vt = arx_rt::now();
  for k in 0..nrec {
    let s = lk(&sh.subs)[k].clone();
    if let Some(s) = s {
      // only subscriptions that have not ended by themselves (C17 audits the others as
      // they are)
      if s.is_subscribed() {
        lk(&log).force_unsubscribed.push(k);
        s.unsubscribe();
      }
    }
  }
  {
    let c = lk(&sh.connection).take();
    if let Some(c) = c {
      c.unsubscribe();
    }
  }
  lk(&log).in_call = Some("final wait".into());
  if arx_rt::lib_threads_alive() > 0 {
    arx_rt::sleep_ns(opts.final_wait_ms * 1_000_000);
    arx_rt::settle();
  }
  {
    let counts: Vec<Option<usize>> = env.hots.iter().map(|h| h.observer_count()).collect();
    let mut l = lk(&log);
    l.subj_counts_final = counts;
    l.lib_threads_total = arx_rt::lib_threads_total();
    l.lib_threads_alive_end = arx_rt::lib_threads_alive();
  }
  // ---- epilogue 4: drop every handle, audit tokens
  lk(&log).in_call = Some("drop handles".into());
  let ctx = env.ctx.clone();
  *lk(&sh.root) = None;
  *lk(&sh.root_plain) = None;
  *lk(&sh.publish) = None;
  lk(&sh.subs).clear();
  for h in env.hots.iter() {
    if let Hot::Harness(core) = h {
      lk(&core.subs).clear();
    }
  }
  lk(&env.stats.probes).clear();
  drop(sh);
  drop(env);
  let mut l = lk(&log);
  l.live_closures = ctx.live_closures.load(Ordering::SeqCst);
  l.live_items = ctx.live_items.load(Ordering::SeqCst);
  l.made_items = ctx.made_items.load(Ordering::SeqCst);
  l.in_call = None;
  l.epilogue_done = true;
}

pub struct RunResult {
  pub log: RunLog,
  pub outcome: arx_rt::Outcome,
}

/// every execution of the harness starts here: the runtime schedules before lock releases
/// too if (and only if) the crate under test uses try_lock-style operations
pub fn rt_run<F>(cfg: arx_rt::Config, main: F) -> arx_rt::Outcome
where
  F: FnOnce() + Send + 'static,
{
  arx_rt::set_release_points(rx_inst::VERIF_USES_TRY_LOCKS);
  arx_rt::run(cfg, main)
}

pub fn run_conc(case: &Case, threads: &[Vec<Action>], cfg: arx_rt::Config, opts: RunOpts) -> RunResult {
  let log = Arc::new(Mutex::new(RunLog::default()));
  let l2 = log.clone();
  let case2 = case.clone();
  let threads2 = threads.to_vec();
  let outcome = rt_run(cfg, move || drive_conc(&case2, &threads2, &opts, l2));
  let log = lk(&log).clone();
  RunResult { log, outcome }
}

pub fn run_case(case: &Case, cfg: arx_rt::Config, opts: RunOpts) -> RunResult {
  let log = Arc::new(Mutex::new(RunLog::default()));
  let l2 = log.clone();
  let case2 = case.clone();
  let outcome = rt_run(cfg, move || drive(&case2, &opts, l2));
  let log = lk(&log).clone();
  RunResult { log, outcome }
}

impl RunResult {
  pub fn trace(&self, k: usize) -> Vec<Rk> {
    self.log.recs.get(k).map(|v| v.iter().map(|e| e.k.clone()).collect()).unwrap_or_default()
  }
}
