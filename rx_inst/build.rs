//! Builds the "instrumented copy" of another-rxrust: flattens $ARX_REPO_SRC (default
//! /repo/src) into one file, redirects every `std::` path to `::arx_rt::stdx::` and appends
//! read-only accessors to the subject types. /repo itself is never touched.

use std::fs;
use std::path::{Path, PathBuf};

fn main() {
  let src = std::env::var("ARX_REPO_SRC").unwrap_or_else(|_| "/repo/src".to_string());
  println!("cargo:rerun-if-env-changed=ARX_REPO_SRC");
  println!("cargo:rerun-if-env-changed=ARX_SRC_HASH");
  println!("cargo:rerun-if-changed={}", src);
  let src = PathBuf::from(src);
  let mut files = Vec::new();
  let body = inline_file(&src.join("lib.rs"), &src, true, &mut files);
  for f in &files {
    println!("cargo:rerun-if-changed={}", f.display());
  }
  // does the crate use non-blocking lock operations? Then whether a lock is *still* held at
  // a given moment is observable, and the runtime also schedules before every release
  let uses_try = [".try_read(", ".try_write(", ".try_lock("].iter().any(|p| body.contains(p));
  let body = format!("{}\npub const VERIF_USES_TRY_LOCKS: bool = {};\n", body, uses_try);
  let out = PathBuf::from(std::env::var("OUT_DIR").unwrap()).join("flat.rs");
  fs::write(&out, body).unwrap();
}

/// directory in which the children of the module defined by `file` live
fn child_dir(file: &Path, root_like: bool) -> PathBuf {
  let dir = file.parent().unwrap().to_path_buf();
  let stem = file.file_stem().unwrap().to_str().unwrap();
  if root_like || stem == "mod" {
    dir
  } else {
    dir.join(stem)
  }
}

fn inline_file(file: &Path, _root: &Path, root_like: bool, files: &mut Vec<PathBuf>) -> String {
  files.push(file.to_path_buf());
  let text = fs::read_to_string(file).unwrap_or_else(|e| panic!("read {}: {}", file.display(), e));
  let cdir = child_dir(file, root_like);
  let mut out = String::new();
  let mut pending_cfg_test = false;
  for line in text.lines() {
    let t = line.trim();
    if root_like && (t.starts_with("//!") || t.starts_with("#![")) {
      continue;
    }
    if t.starts_with("#[cfg(") && t.contains("test") && !t.contains("not(test") {
      // `#[cfg(test)]` / `#[cfg(all(test, ...))]` item: keep the attribute (never compiled)
      pending_cfg_test = true;
      out.push_str(line);
      out.push('\n');
      continue;
    }
    if let Some(name) = mod_decl(t) {
      if pending_cfg_test {
        // test-only module file: not needed
        out.push_str(&format!("mod {} {{}}\n", name));
        pending_cfg_test = false;
        continue;
      }
      let vis = if t.starts_with("pub(crate)") {
        "pub(crate) "
      } else if t.starts_with("pub") {
        "pub "
      } else {
        ""
      };
      let c1 = cdir.join(format!("{}.rs", name));
      let c2 = cdir.join(&name).join("mod.rs");
      let child = if c1.exists() { c1 } else { c2 };
      if !child.exists() {
        // probably behind a cfg we do not enable (feature = "web")
        out.push_str(&format!("{}mod {} {{}}\n", vis, name));
        continue;
      }
      let mut inner = inline_file(&child, _root, false, files);
      inner.push_str(&accessors(&child));
      out.push_str(&format!("{}mod {} {{\n{}\n}}\n", vis, name, inner));
      continue;
    }
    if !t.is_empty() && !t.starts_with("#[") {
      pending_cfg_test = false;
    }
    // pub(crate) -> pub: lets harness sources use inner_subscribe the way `defer` does;
    // visibility does not change behaviour
    out.push_str(&redirect(line).replace("pub(crate)", "pub"));
    out.push('\n');
  }
  out
}

/// `mod x;` / `pub mod x;` / `pub(crate) mod x;` -> Some("x")
fn mod_decl(t: &str) -> Option<String> {
  let mut s = t;
  if let Some(r) = s.strip_prefix("pub(crate)") {
    s = r.trim_start();
  } else if let Some(r) = s.strip_prefix("pub") {
    s = r.trim_start();
  }
  let r = s.strip_prefix("mod ")?;
  let r = r.trim();
  let name = r.strip_suffix(';')?.trim();
  if name.chars().all(|c| c.is_alphanumeric() || c == '_') && !name.is_empty() {
    Some(name.to_string())
  } else {
    None
  }
}

/// rewrite `std::` paths (not preceded by an identifier character) to the facade
fn redirect(line: &str) -> String {
  let b = line.as_bytes();
  let mut out = String::with_capacity(line.len() + 16);
  let mut i = 0;
  while i < b.len() {
    if line[i..].starts_with("std::") {
      let prev_ident = i > 0 && (b[i - 1].is_ascii_alphanumeric() || b[i - 1] == b'_');
      if !prev_ident {
        // swallow a leading `::`
        if out.ends_with("::") {
          out.truncate(out.len() - 2);
        }
        out.push_str("::arx_rt::stdx::");
        i += 5;
        continue;
      }
    }
    let ch = line[i..].chars().next().unwrap();
    out.push(ch);
    i += ch.len_utf8();
  }
  out
}

/// read-only accessors named in the properties' hook_needed fields, appended to the
/// module text of the subject files (only if the expected field is present)
fn accessors(file: &Path) -> String {
  let name = file.file_name().unwrap().to_str().unwrap();
  let parent = file.parent().and_then(|p| p.file_name()).and_then(|p| p.to_str()).unwrap_or("");
  if parent != "subjects" {
    return String::new();
  }
  let text = fs::read_to_string(file).unwrap_or_default();
  let head = "\nimpl<'a, Item> {T}<'a, Item> where Item: Clone + Send + Sync {\n  pub fn verif_observer_count(&self) -> usize { {E} }\n}\n";
  // if the expected field is not there (a refactoring renamed it) the accessor still exists
  // and answers usize::MAX = "unknown": the count-based sub-checks are skipped, everything
  // else keeps working
  let unknown = "usize::MAX";
  let (ty, expr) = match name {
    "subject.rs" => (
      "Subject",
      if text.contains("observers: Arc<RwLock<HashMap<") { "self.observers.read().unwrap().len()" } else { unknown },
    ),
    "behavior_subject.rs" => ("BehaviorSubject", if text.contains("subject: Arc<subject::Subject<") { "self.subject.verif_observer_count()" } else { unknown }),
    "replay_subject.rs" => ("ReplaySubject", if text.contains("subject: Arc<subject::Subject<") { "self.subject.verif_observer_count()" } else { unknown }),
    "async_subject.rs" => ("AsyncSubject", if text.contains("subject: Arc<subject::Subject<") { "self.subject.verif_observer_count()" } else { unknown }),
    _ => return String::new(),
  };
  head.replace("{T}", ty).replace("{E}", expr)
}
