#!/usr/bin/env python3
"""Regenerates /verif/MANIFEST.json. Claimed properties are listed in CHECKS; everything
else goes to not_applicable with the reason given in NA (or a default)."""
import json
PBT = "property-based testing (proptest, generated cases, shrinking, replay files)"
CHECKS = {
 "C01": ("arxv-seq", "generated pipelines over every operator family fed by ill-formed cold and hot source scripts; every recorder history must match next*(error|complete)? and Subscription::is_subscribed() must be false after a terminal. Bounded exploration (depth, script length): no absence claim.",
         "trusted: arx_rt runtime (selftest), the flattening/redirect of /repo/src, harness sources and recorders",
         PBT + " with a history-invariant oracle over generated pipelines and ill-formed event scripts"),
 "C02": ("arxv-seq", "generated single-source operator chains x item sequences x endings x parameters (also at large sizes: inputs of hundreds of items, counts up to usize::MAX), and every creation function; exact trace equality with an independent reference interpreter (differential).",
         "trusted: the reference interpreter harness/src/model.rs and its conventions (DESIGN.md 2.5)",
         PBT + " with a differential oracle (reference interpreter mini-Rx)"),
 "C03": ("arxv-seq", "generated multi-source pipelines (merge, concat, zip, combine_latest, amb, take_until, skip_until, sample, flat_map, sequence_equal, ready_set_go) over hot sources (harness sources and the crate's own subjects) driven in a generated sequential order and cold sources; exact trace equality with the reference interpreter; switch_on_next over two hot inputs against a trace computed from the history.",
         "trusted: reference interpreter; inputs subscribed left to right / trigger first; trigger terminals ignored",
         PBT + " with a differential oracle (reference interpreter mini-Rx)"),
 "C04": ("arxv-seq", "generated pipelines with errors at every script position, retry / retry_when / on_error_resume_next over sources whose k-th subscription differs and over Subject / BehaviorSubject / ReplaySubject sources resubscribed from inside their own error delivery; trace equality with the reference, payload type identity, exactly-once error, subscription counts; metamorphic materialize/dematerialize round trip.",
         "trusted: reference interpreter; retry(n) accepted as n or n+1 subscriptions",
         PBT + " with differential and metamorphic (round-trip) oracles"),
 "C05": ("arxv-seq", "generated pipelines with unsubscribe / repeated unsubscribe / Using-drop / unsubscribe-from-callback at generated positions; stamped-history oracle (no callback started after unsubscribe returned, is_subscribed time line); cross-thread part under generated schedules.",
         "trusted: arx_rt runtime and its lock model (writer-preferring futex RwLock)",
         PBT + " with a stamped-history oracle, schedules generated as data"),
 "C06": ("arxv-seq", "generated pipelines over probing sources; after every subscriber ended each source's observer must report is_subscribed()==false at its next emission attempt, crate subjects hold no observer, bounded-by-operator endless producers stop (fuel); inner endings compared per source subscription with the reference interpreter's disposal causes.",
         "trusted: reference interpreter for inner endings; only causes listed in the statement are asserted",
         PBT + " with probing sources, a fuel-bounded runtime and a differential oracle for inner endings"),
 "C14": ("arxv-seq", "generated pipelines subscribed 2..3 times (sequential, interleaved on hot sources, nested from a callback); each subscriber's trace must equal the reference trace of an independent subscription; tap log and factory calls per subscription.",
         "trusted: reference interpreter",
         PBT + " with a differential oracle over multi-subscription histories"),
 "C17": ("arxv-seq", "generated pipelines ended by complete / error / unsubscribe; liveness tokens in every closure and item must all be released once handles are dropped.",
         "harness sources release their observer handles in the epilogue",
         PBT + " with reference-counted liveness tokens"),
}
CONC = " under schedules generated as data (sparse preemption overrides / dense random walks over the scheduling points of every lock, condvar, spawn and sleep operation)"
CHECKS.update({
 "C07": ("arxv-conc", "every sequential generator of C01-C06/C10 (with and without re-entrant reactions) and the concurrent scenario generators of C05/C09/C11/C12/C19 are run with the only oracle 'the runtime reports no deadlock (incl. self-deadlock), no step-budget / fuel exhaustion, every call returned'.",
         "trusted: arx_rt lock model (writer-preferring futex RwLock, recursive read deadlocks when a writer is queued); bounded schedules",
         PBT + " with the controlled runtime's deadlock / livelock verdict as oracle" + CONC),
 "C08": ("arxv-conc", "generated post/abort call sequences from 1..3 poster threads (tasks that yield, post, abort)" + CONC + "; stamped-history oracle: at-most-once, one at a time on one non-poster thread, FIFO up to concurrency, nothing after abort, no lost wake-up, clean stop, default scheduler synchronous.",
         "trusted: arx_rt condvar model (spurious wake-ups and the FIFO/LIFO notify choice are generated as part of the schedule)",
         PBT + " with a stamped-history oracle" + CONC),
 "C09": ("arxv-conc", "generated scripts through [ops] observe_on|subscribe_on (also stacked) [ops] with an emitter thread or a synchronous source, an optional unsubscribing thread, an optional item pushed from the subscriber's own callback on the worker, an optional second subscription of the same observable" + CONC + "; received must equal the reference trace without scheduler operators (prefix if unsubscribed), one worker thread, no overlapping callbacks.",
         "trusted: reference interpreter for the scheduler-free pipeline",
         PBT + " with differential + history oracles" + CONC),
 "C10": ("arxv-seq", "generated call histories over subscribe/unsubscribe/next/error/complete with 3 observers (sub-check large: up to 40 observers, 160 calls) on the four subject types, including a subscribe or a next issued from inside a callback; per-observer traces and the registered-observer count after every call must equal the reference state machine.",
         "trusted: reference state machine (model.rs MHot); observer count accessor appended to the generated copy",
         PBT + " (stateful: generated call histories) with a reference state machine"),
 "C11": ("arxv-conc", "2..3 inputs with unique item scripts pushed by harness threads or played on scheduler threads into merge / zip / amb / concat / flat_map, optional take or aggregate (count / sum / reduce / max) downstream" + CONC + "; conservation, per-input order, pairing, exactly one complete and last, take(n) <= n, aggregate over all inputs' items.",
         "schedules explored by generation, not exhaustively",
         PBT + " with conservation / ordering invariants" + CONC),
 "C12": ("arxv-conc", "producer threads, a late subscriber thread and a leaving thread on Subject / BehaviorSubject / ReplaySubject" + CONC + "; exactly-once, gap-free per-producer runs, replay completeness in push order, behavior: value then all later values. Two open known findings (late Behavior/Replay subscriber racing a push) are reported and excluded by construction.",
         "push order = order of the producers' call/return stamps",
         PBT + " with stamped-history invariants" + CONC),
 "C13": ("arxv-seq", "generated call histories over subscribe/unsubscribe/connect/disconnect/source events on publish / ref_count / replay over hot, cold-synchronous and per-subscription sources, subscribers optionally ending by themselves through take(n) - all of them or the first one only; per-subscriber traces, source subscription counts and final liveness must equal the reference state machine.",
         "trusted: reference state machine (model.rs MConn); a second connection of replay() and ref_count over a terminated hot source are not generated (unspecified)",
         PBT + " (stateful: generated call histories) with a reference state machine"),
 "C15": ("arxv-conc", "generated pipelines over interval / timer / observe_on / subscribe_on / delay / debounce / timeout ended by terminal, unsubscribe or early completion at generated virtual instants" + CONC + "; at quiescence every library-spawned thread must have finished within the pipeline's timer periods after the last subscription ended.",
         "virtual clock (computation takes no time); bound = sum of the periods in the pipeline",
         PBT + " on a virtual clock with a thread-table oracle" + CONC),
 "C16": ("arxv-conc", "period x gap-script grid for interval (also under a slow subscriber), timer, delay, timeout, sample, debounce, time_interval, and delay / timeout fed by two emitting threads" + CONC + "; (virtual time, event) pairs must equal the timing definition.",
         "virtual clock owned by the runtime (thread::sleep / Instant redirected)",
         PBT + " on a virtual clock with an exact timing oracle" + CONC),
 "C18": ("arxv-conc", "scripts pushed by an emitter thread (directly or through observe_on) or synchronously, awaited by a condvar block_on, optionally polled first with another waker or with a clone of the future dropped meanwhile" + CONC + "; the future resolves, never before the terminal, with exactly the items / the error.",
         "the waker is std::task::Wake on an Arc<flag+condvar> built on the facade",
         PBT + " with lost-wake-up detection by the controlled runtime" + CONC),
 "C19": ("arxv-conc", "2..3 threads over merge / zip / amb / flat_map / take_until / skip_until / sample / the four subjects with one thread signalling a terminal while another emits or while a subscriber is being handed a subject's history" + CONC + "; at most one terminal, nothing for an emission that started after the terminal callback returned.",
         "a callback already in flight when the terminal callback returns is tolerated, as the statement allows",
         PBT + " with a stamped-history oracle" + CONC),
})
CHECKS["C05"] = ("arxv-conc",) + CHECKS["C05"][1:]
import os
extra = os.path.join(os.path.dirname(__file__), 'manifest_extra.py')
NA = {}
if os.path.exists(extra):
    exec(open(extra).read())
def chk(pid, engine, text, note, tech):
    return {"property_id": pid, "quick_cmd": f"./run.sh {pid} quick", "thorough_cmd": f"./run.sh {pid} thorough",
            "evidence_file": f"/verif/evidence/{pid}.json", "replay_cmd_template": "./run.sh replay {path}", "engine": engine,
            "level_claimed": {"category": "exploration", "text": text, "design_ref": "DESIGN.md section 3 (" + pid + ")"},
            "level_note": note, "technique": tech}
ids = [f"C{n:02d}" for n in range(1, 20)]
m = {
 "version": 1,
 "setup_cmd": "./run.sh build",
 "hooks": {
  "guard": "none: instrumentation is applied to a generated copy of /repo/src (rx_inst/build.rs); /repo carries no hook",
  "enable": "rx_inst/build.rs flattens $ARX_REPO_SRC (default /repo/src) into OUT_DIR/flat.rs with std:: paths redirected to the arx_rt facade; run.sh rebuilds it whenever the content hash of /repo/src changes",
  "baseline_off_cmd": "cd /repo && cargo test --workspace --no-fail-fast --offline",
  "source_commits": [],
  "add_only": True
 },
 "engines": [
  {"name": "arxv-seq", "path": "harness/", "serves_properties": [p for p in ids if p in CHECKS and CHECKS[p][0] == "arxv-seq"],
   "kind_free_text": "proptest-generated pipelines / scripts / driver histories executed on the instrumented crate under the arx_rt controlled runtime (one harness thread); invariant, differential (reference interpreter) and metamorphic oracles"},
  {"name": "arxv-fuzz", "path": "fuzz/", "serves_properties": ["C01", "C03", "C05", "C06", "C14", "C17"],
   "kind_free_text": "coverage-guided tier of the thorough runs: cargo-fuzz / libFuzzer target decoding bytes into sequential cases and running the same oracles (not load-bearing: skipped with a note if the nightly fuzz build fails)"},
  {"name": "arxv-conc", "path": "harness/", "serves_properties": [p for p in ids if p in CHECKS and CHECKS[p][0] == "arxv-conc"],
   "kind_free_text": "proptest-generated concurrent scenarios + schedules (generated data) executed under the arx_rt controlled runtime (every lock / condvar / spawn / sleep is a scheduling point, virtual clock); stamped-history oracles"},
 ],
 "checks": [chk(p, *CHECKS[p]) for p in ids if p in CHECKS],
 "not_applicable": [{"property_id": p, "reason": NA.get(p, "check under construction in this build round (designed in DESIGN.md section 3); not claimed yet")} for p in ids if p not in CHECKS],
 "notes": "known_findings.json lists fixed and open findings; regress/ holds shrunk replay files of fixed defects, replayed by every run of their property."
}
json.dump(m, open('/verif/MANIFEST.json', 'w'), indent=1)
print('claimed', len(m['checks']), 'not_applicable', len(m['not_applicable']))
