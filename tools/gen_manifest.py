#!/usr/bin/env python3
"""Regenerates /verif/MANIFEST.json. Claimed properties are listed in CHECKS; everything
else goes to not_applicable with the reason given in NA (or a default)."""
import json
PBT = "property-based testing (proptest, generated cases, shrinking, replay files)"
CHECKS = {
 "C01": ("arxv-seq", "generated pipelines over every operator family fed by ill-formed cold and hot source scripts; every recorder history must match next*(error|complete)? and Subscription::is_subscribed() must be false after a terminal. Bounded exploration (depth, script length): no absence claim.",
         "trusted: arx_rt runtime (selftest), the flattening/redirect of /repo/src, harness sources and recorders",
         PBT + " with a history-invariant oracle over generated pipelines and ill-formed event scripts"),
 "C02": ("arxv-seq", "generated single-source operator chains x item sequences x endings x parameters, and every creation function; exact trace equality with an independent reference interpreter (differential).",
         "trusted: the reference interpreter harness/src/model.rs and its conventions (DESIGN.md 2.5)",
         PBT + " with a differential oracle (reference interpreter mini-Rx)"),
 "C03": ("arxv-seq", "generated multi-source pipelines (merge, concat, zip, combine_latest, amb, take_until, skip_until, sample, flat_map, sequence_equal, ready_set_go) over hot sources driven in a generated sequential order and cold sources; exact trace equality with the reference interpreter.",
         "trusted: reference interpreter; inputs subscribed left to right / trigger first; trigger terminals ignored",
         PBT + " with a differential oracle (reference interpreter mini-Rx)"),
 "C04": ("arxv-seq", "generated pipelines with errors at every script position, retry / retry_when / on_error_resume_next over sources whose k-th subscription differs; trace equality with the reference, payload type identity, exactly-once error, subscription counts; metamorphic materialize/dematerialize round trip.",
         "trusted: reference interpreter; retry(n) accepted as n or n+1 subscriptions",
         PBT + " with differential and metamorphic (round-trip) oracles"),
 "C05": ("arxv-seq", "generated pipelines with unsubscribe / repeated unsubscribe / Using-drop / unsubscribe-from-callback at generated positions; stamped-history oracle (no callback started after unsubscribe returned, is_subscribed time line); cross-thread part under generated schedules.",
         "trusted: arx_rt runtime and its lock model (writer-preferring futex RwLock)",
         PBT + " with a stamped-history oracle, schedules generated as data"),
 "C06": ("arxv-seq", "generated pipelines over probing sources; after every subscriber ended each source's observer must report is_subscribed()==false at its next emission attempt, crate subjects hold no observer, bounded-by-operator endless producers stop (fuel); inner endings compared per source subscription with the reference interpreter's disposal causes.",
         "trusted: reference interpreter for inner endings; only causes listed in the statement are asserted",
         PBT + " with probing sources, a fuel-bounded runtime and a differential oracle for inner endings"),
 "C14": ("arxv-seq", "generated pipelines subscribed 2..3 times (sequential, interleaved on hot sources, nested from a callback); each subscriber's trace must equal the reference trace of an independent subscription; tap log and factory calls per subscription.",
         "trusted: reference interpreter",
         PBT + " with a differential oracle over multi-subscription histories"),
 "C17": ("arxv-seq", "generated pipelines ended by complete / error / unsubscribe; liveness tokens in every closure and item must all be released once handles are dropped.",
         "harness sources release their observer handles in the epilogue",
         PBT + " with reference-counted liveness tokens"),
}
import os
extra = os.path.join(os.path.dirname(__file__), 'manifest_extra.py')
NA = {}
if os.path.exists(extra):
    exec(open(extra).read())
def chk(pid, engine, text, note, tech):
    return {"property_id": pid, "quick_cmd": f"./run.sh {pid} quick", "thorough_cmd": f"./run.sh {pid} thorough",
            "evidence_file": f"/verif/evidence/{pid}.json", "replay_cmd_template": "./run.sh replay {path}", "engine": engine,
            "level_claimed": {"category": "exploration", "text": text, "design_ref": "DESIGN.md section 3 (" + pid + ")"},
            "level_note": note, "technique": tech}
ids = [f"C{n:02d}" for n in range(1, 20)]
m = {
 "version": 1,
 "setup_cmd": "./run.sh build",
 "hooks": {
  "guard": "none: instrumentation is applied to a generated copy of /repo/src (rx_inst/build.rs); /repo carries no hook",
  "enable": "rx_inst/build.rs flattens $ARX_REPO_SRC (default /repo/src) into OUT_DIR/flat.rs with std:: paths redirected to the arx_rt facade; run.sh rebuilds it whenever the content hash of /repo/src changes",
  "baseline_off_cmd": "cd /repo && cargo test --workspace --no-fail-fast --offline",
  "source_commits": [],
  "add_only": True
 },
 "engines": [
  {"name": "arxv-seq", "path": "harness/", "serves_properties": [p for p in ids if p in CHECKS and CHECKS[p][0] == "arxv-seq"],
   "kind_free_text": "proptest-generated pipelines / scripts / driver histories executed on the instrumented crate under the arx_rt controlled runtime (one harness thread); invariant, differential (reference interpreter) and metamorphic oracles"},
  {"name": "arxv-conc", "path": "harness/", "serves_properties": [p for p in ids if p in CHECKS and CHECKS[p][0] == "arxv-conc"],
   "kind_free_text": "proptest-generated concurrent scenarios + schedules (generated data) executed under the arx_rt controlled runtime (every lock / condvar / spawn / sleep is a scheduling point, virtual clock); stamped-history oracles"},
 ],
 "checks": [chk(p, *CHECKS[p]) for p in ids if p in CHECKS],
 "not_applicable": [{"property_id": p, "reason": NA.get(p, "check under construction in this build round (designed in DESIGN.md section 3); not claimed yet")} for p in ids if p not in CHECKS],
 "notes": "known_findings.json lists fixed and open findings; regress/ holds shrunk replay files of fixed defects, replayed by every run of their property."
}
json.dump(m, open('/verif/MANIFEST.json', 'w'), indent=1)
print('claimed', len(m['checks']), 'not_applicable', len(m['not_applicable']))
