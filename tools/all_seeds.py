#!/usr/bin/env python3
"""tools/all_seeds.py [slots]: re-run every kept seeded change (seeded/*/patch.diff) against
the checks its meta.json names as catching it, on scratch copies of the current /repo/src.
Prints one line per seed; a seed none of its named checks catches any more is reported as
MISSED (exit 1). Seeds whose meta says they are neutralised by a later fix are expected silent.
Uses a snapshot of /verif (so that edits made meanwhile do not matter) when VERIF_DIR is set."""
import json, os, subprocess, sys, shutil, concurrent.futures, glob

V = os.environ.get("VERIF_DIR", "/verif")
slots = int(sys.argv[1]) if len(sys.argv) > 1 else 3

def run(args):
    sid, slot = args
    d = f"{V}/seeded/{sid}"
    meta = json.load(open(d + "/meta.json"))
    det = meta.get("detected_by", {})
    props = [p for p, t in det.items() if "VIOLATION" in t]
    neutral = any("neutralised" in t for t in det.values())
    outside = any("outside the listed properties" in t for t in det.values())
    missed = any("MISSED" in t for t in det.values())
    if not props:
        return sid, ("neutralised" if neutral else "outside-the-properties" if outside else "missed(recorded-in-DESIGN)" if missed else "no-catching-check-listed"), []
    w = f"/var/tmp/allseeds_{slot}"
    shutil.rmtree(w, ignore_errors=True)
    shutil.copytree("/repo/src", w + "/src")
    r = subprocess.run(["patch", "-p1", "-s", "-i", d + "/patch.diff"], cwd=w, capture_output=True, text=True)
    if r.returncode != 0:
        shutil.rmtree(w, ignore_errors=True)
        return sid, "patch-does-not-apply", []
    env = dict(os.environ, ALT_TARGET=f"/var/tmp/arxv_allseeds_target_{slot}", ALT_ROOT=f"/var/tmp/arxv_allseeds_root_{slot}")
    res = []
    status = "MISSED"
    for p in props:
        r = subprocess.run([V + "/tools/with_src.sh", w + "/src", "check", "--property", p], env=env, capture_output=True, text=True)
        res.append((p, r.returncode))
        if r.returncode == 1:
            status = "caught"
            break
    shutil.rmtree(w, ignore_errors=True)
    return sid, status, res

if __name__ == "__main__":
    sids = sorted(os.path.basename(os.path.dirname(p)) for p in glob.glob(V + "/seeded/*/meta.json"))
    bad = 0
    with concurrent.futures.ThreadPoolExecutor(max_workers=slots) as ex:
        jobs = [(s, i % slots) for i, s in enumerate(sids)]
        # one slot must not run two seeds at once: chunk by waves
        for w in range(0, len(jobs), slots):
            for sid, status, res in ex.map(run, jobs[w:w + slots]):
                print(f"{sid:6s} {status:24s} {res}", flush=True)
                if status in ("MISSED", "patch-does-not-apply", "no-catching-check-listed"):
                    bad += 1
    print("all-seeds-done bad=%d" % bad)
    sys.exit(1 if bad else 0)
