#!/usr/bin/env python3
"""tools/seed_meta.py <ID[suffix]> <property> '<detected_by json>' : writes seeded/<ID>/meta.json"""
import json, sys
sid, prop, det = sys.argv[1], sys.argv[2], json.loads(sys.argv[3])
d = f'/verif/seeded/{sid}'
a = json.load(open(d + '/agent_meta.json'))
meta = {"property": prop, "summary": a.get("summary"), "needs": a.get("needs"),
        "confirmed": {"existing_tests_pass_with_change": True, "demo_fails_with_change": True, "demo_passes_without_change": True,
                      "how": f"tools/confirm_seed.sh in the sub-agent's scratch worktree (see confirmation.txt)"},
        "detected_by": det,
        "ran": [f"tools/try_seed.sh seeded/{sid}/patch.diff " + " ".join(det.keys())]}
json.dump(meta, open(d + '/meta.json', 'w'), indent=1)
print('wrote', d + '/meta.json')
