#!/bin/bash
# tools/run_g.sh <Gxx> [more props...]: confirm a file-targeted seed and try it against the
# property its author names plus the given ones
G="$1"; shift
cd /verif
tools/confirm_seed.sh "$G" "" 2>&1 | tail -1
[ -f seeded/$G/patch.diff ] || exit 1
P=$(python3 -c "import json; print(json.load(open('/verif/seeded/$G/agent_meta.json')).get('property','C02'))")
echo "property named by the author: $P"
tools/try_seed.sh seeded/$G/patch.diff $P "$@" 2>&1 | grep -E '^C[0-9]+ exit' | cut -c1-330
