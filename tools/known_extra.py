# open findings (exec'd by gen_known.py)
open_("K01", "C12", "BehaviorSubject: a subscriber that arrives while pushes are in progress can miss a value or receive one twice (hand-over of the latest value and registration in the inner subject are two steps): e.g. producer pushes 100 101 102, late subscriber receives only <101>, or <100 100 101>",
      "known/C12-behavior-late-subscriber-gap.json", "no_late_behavior_subscriber")
open_("K02", "C12", "ReplaySubject: a subscriber that arrives while pushes are in progress can receive an item twice or out of order (registration in the inner subject and replay of the history are two steps): producer pushes 100 101, late subscriber receives <100 100 101>",
      "known/C12-replay-late-subscriber-duplicate.json", "no_late_replay_subscriber")
