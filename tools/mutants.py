#!/usr/bin/env python3
"""Sensitivity runs: apply hand-made breakages (each compiles; most pass the crate's own
tests, which assert almost nothing) to a scratch copy of /repo/src and run the checks
that are expected to catch them. Usage: tools/mutants.py [name-substring ...]
Results are appended to /var/tmp/mutants_results.jsonl and printed as a table."""
import json, os, shutil, subprocess, sys, concurrent.futures, time

M = []
def m(name, file, old, new, expect, count=1):
    M.append(dict(name=name, file=file, old=old, new=new, expect=expect, count=count))

# ---- C08 scheduler queue
m("post-without-notify", "schedulers/async_function_queue.rs",
  "    que_mtx.push_back(FunctionWrapper::new(move |_| f()));\n    self.data.cond.notify_one();",
  "    que_mtx.push_back(FunctionWrapper::new(move |_| f()));", ["C08"])
m("stop-without-notify", "schedulers/async_function_queue.rs",
  "    *self.data.abort.write().unwrap() = true;\n    self.data.cond.notify_one();",
  "    *self.data.abort.write().unwrap() = true;", ["C08", "C15"])
m("queue-lifo", "schedulers/async_function_queue.rs", "que_mtx.pop_front()", "que_mtx.pop_back()", ["C08", "C09"])
m("stop-does-not-clear-queue", "schedulers/async_function_queue.rs", "    que_mtx.clear();\n", "", ["C08"])
m("no-abort-recheck-after-wait", "schedulers/async_function_queue.rs",
  "        if *self.data.abort.read().unwrap() {\n          None\n        } else {\n          que_mtx.pop_front()\n        }",
  "        que_mtx.pop_front()", ["C08"])
# ---- C09
m("observe_on-complete-not-posted", "operators/observe_on.rs",
  "          let sctl_complete = sctl_complete.clone();\n          scheduler_complete.post(move || {\n            sctl_complete.sink_complete(&serial);\n          });",
  "          let _ = &scheduler_complete;\n          sctl_complete.sink_complete(&serial);", ["C09"])
m("observe_on-error-not-posted", "operators/observe_on.rs",
  "          let sctl_error = sctl_error.clone();\n          scheduler_error.post(move || {\n            sctl_error.sink_error(e.clone());\n          });",
  "          let _ = &scheduler_error;\n          sctl_error.sink_error(e.clone());", ["C09"])
# ---- C05
m("unsubscribe-keeps-next-slot", "observer.rs", "    self.fn_next.clear();\n    self.fn_error.clear();", "    self.fn_error.clear();", ["C05", "C01"])
m("using-drop-does-nothing", "utils/using.rs", "    self.subscription.unsubscribe();", "    let _ = &self.subscription;", ["C05"])
m("subscription-is_subscribed-always-true-until-unsub", "observable.rs", "move || issub_observer.is_subscribed(),", "move || { let _ = &issub_observer; true },", ["C05", "C01"])
# ---- C16 / C15
m("interval-emits-before-sleeping", "observables/interval.rs",
  "        thread::sleep(dur);\n        if !s.is_subscribed() {\n          break;\n        }\n        s.next(n);\n        n += 1;",
  "        if !s.is_subscribed() {\n          break;\n        }\n        s.next(n);\n        n += 1;\n        thread::sleep(dur);", ["C16"])
m("delay-without-sleep", "operators/delay.rs", "          thread::sleep(dur);\n", "          let _ = dur; let _ = thread::current();\n", ["C16"])
m("sample-does-not-clear", "operators/sample.rs", "              let vv = v.clone();\n              *v = None;\n              vv", "              let vv = v.clone();\n              vv", ["C16", "C03"])
m("timer-no-complete", "observables/timer.rs", "      s.next(());\n      s.complete();", "      s.next(());", ["C16"])
m("interval-never-aborts-scheduler", "observables/interval.rs", "      scheduler_in_post.abort();", "      let _ = &scheduler_in_post;", ["C15"])
m("observe_on-no-on_finalize", "operators/observe_on.rs", "      sctl.set_on_finalize(move || {\n        scheduler_on_finalize.abort();\n      });", "      let _ = scheduler_on_finalize;", ["C15"])
m("debounce-loop-ignores-unsubscribe", "operators/debounce.rs", "          while sctl.is_subscribed() {", "          loop {", ["C15", "C07"])
# ---- C18
m("to_vec-done-after-waker-read", "operators/to_vec.rs",
  "      move || {\n        *done_complete.write().unwrap() = true;\n        if let Some(w) = waker_complete.read().unwrap().clone() {\n          w.wake();\n        }",
  "      move || {\n        let w = waker_complete.read().unwrap().clone();\n        *done_complete.write().unwrap() = true;\n        if let Some(w) = w {\n          w.wake();\n        }", ["C18"])
m("to_vec-drops-first-item", "operators/to_vec.rs", "move |x| buff_next.write().unwrap().push(x),", "move |x| { let mut b = buff_next.write().unwrap(); if b.len() != 3 { b.push(x) } },", ["C18"])
# ---- C11 / C19
m("sink_complete-two-critical-sections", "internals/stream_controller.rs",
  "        let mut observers = self.unscribers.write().unwrap();\n        observers.remove(serial);\n        observers.len() == 0",
  "        self.unscribers.write().unwrap().remove(serial);\n        self.unscribers.read().unwrap().len() == 0", ["C11", "C19"])
m("take-counter-two-critical-sections", "operators/take.rs",
  "            let mut n = n.write().unwrap();\n            let nn = *n;\n            *n += 1;",
  "            let nn = *n.read().unwrap();\n            *n.write().unwrap() = nn + 1;", ["C11"])
m("amb-winner-check-then-set", "operators/amb.rs",
  "        let mut w = winner_check.write().unwrap();\n        if let Some(w) = &*w {\n          *serial == *w\n        } else {\n          *w = Some(serial.clone());\n          true\n        }",
  "        let cur = *winner_check.read().unwrap();\n        if let Some(w) = cur {\n          *serial == w\n        } else {\n          *winner_check.write().unwrap() = Some(serial.clone());\n          true\n        }", ["C11"])
m("complete-does-not-clear-error-slot", "observer.rs", "    if self.fn_next.take() {\n      self.fn_error.clear();", "    if self.fn_next.exists() {\n      self.fn_next.clear();", ["C19", "C01"])
# ---- C02
m("take-off-by-one", "operators/take.rs", "(nn < count, (nn + 1) >= count)", "(nn <= count, nn >= count)", ["C02"])
m("skip-off-by-one", "operators/skip.rs", "nn >= count", "nn > count", ["C02"])
m("skip_last-off-by-one", "operators/skip_last.rs", "if items.len() > count {", "if items.len() >= count && count > 0 {", ["C02"])
m("take_last-keeps-one-more", "operators/take_last.rs", "if items.len() > count {", "if items.len() > count + 1 {", ["C02"])
m("min-max-swapped-ties", "operators/min.rs", "if x < *xx {", "if x <= *xx {", [])
m("max-is-min", "operators/max.rs", "if x > *xx {", "if x < *xx {", ["C02"])
m("scan-argument-order", "operators/scan.rs", "*r = Some(f.call((xx.clone(), x)));", "*r = Some(f.call((x, xx.clone())));", ["C02"])
m("buffer-remainder-dropped", "operators/buffer_with_count.rs", "            if vec.len() > 0 {", "            if vec.len() > 1 {", ["C02"])
m("distinct-compares-with-first", "operators/distinct_until_changed.rs", "            if last_x != x {\n              *last.write().unwrap() = Some(x.clone());", "            if last_x != x {", ["C02"])
m("range-end-inclusive", "observables/range.rs", "for n in initial..(initial + count) {", "for n in initial..=(initial + count) {", ["C02"])
m("default_if_empty-on-error-too", "operators/default_if_empty.rs", "        move |_, e| {\n          sctl_error.sink_error(e);", "        move |_, e| {\n          sctl_error.sink_next(default.clone());\n          sctl_error.sink_error(e);", ["C02"])
m("count-ignores-first", "operators/count.rs", "let n = Arc::new(RwLock::new(0usize));", "let n = Arc::new(RwLock::new(usize::MAX));\n      let _ = usize::MAX.wrapping_add(1);", [])
m("reduce-emits-on-error", "operators/reduce.rs", "        move |_, e| {\n          sctl_error.sink_error(e);", "        move |_, e| {\n          sctl_error.sink_error(e.clone());\n          sctl_error.sink_error(e);", [])
m("all-true-on-empty-missing", "operators/all.rs", "            sctl_complete.sink_next(true);\n", "", ["C02"])
m("group_by-key-collision", "operators/group_by.rs", "sbjmap.insert(key, sbj.clone());", "sbjmap.insert(key.clone(), sbj.clone());\n              let _ = key;", [])
# ---- C03
m("merge-completes-on-first", "operators/merge.rs", "move |serial| sctl_complete.sink_complete(&serial),", "move |_serial| sctl_complete.sink_complete_force(),", ["C03", "C11"])
m("zip-emits-partial", "operators/zip.rs", "if filled == re.len() {", "if filled + 1 >= re.len() && filled > 0 && re.iter().all(|x| x.len() > 0) {", [])
m("concat-subscribes-eagerly-loses-order", "operators/concat.rs", "let o = observables.write().unwrap().pop_front().unwrap();", "let o = observables.write().unwrap().pop_back().unwrap();", ["C03"])
m("take_until-ignores-trigger", "operators/take_until.rs", "            sctl_trigger_next.sink_complete_force();", "            let _ = &sctl_trigger_next;", ["C03"])
m("skip_until-never-opens", "operators/skip_until.rs", "            *enable_triggner_next.write().unwrap() = true;", "            let _ = &enable_triggner_next;", ["C03"])
m("flat_map-completes-with-outer", "operators/flat_map.rs", "        move |serial| {\n          sctl_complete.sink_complete(&serial);\n        },\n      ));\n    })", "        move |_serial| {\n          sctl_complete.sink_complete_force();\n        },\n      ));\n    })", ["C03"])
m("ready_set_go-runs-action-first", "utils/ready_set_go.rs", "    o.inner_subscribe(s);\n    f();", "    f();\n    o.inner_subscribe(s);", ["C03", "C10"])
# ---- C04
m("retry-never-resubscribes", "operators/retry.rs", "if max_retry == 0 || n < max_retry {", "if max_retry == 0 && n < max_retry {", ["C04"])
m("retry-one-too-many", "operators/retry.rs", "if max_retry == 0 || n < max_retry {", "if max_retry == 0 || n <= max_retry + 1 {", ["C04"])
m("retry_when-inverted", "operators/retry_when.rs", "if predicate.call(e.clone()) {", "if !predicate.call(e.clone()) {", ["C04"])
m("map-replaces-error", "operators/map.rs", "        move |_, e| {\n          sctl_error.sink_error(e);", "        move |_, e| {\n          let _ = e;\n          sctl_error.sink_error(RxError::from_error(\"map failed\"));", ["C04"])
m("resume-keeps-failed-upstream", "operators/on_error_resume_next.rs", "          sctl_error.upstream_abort_observe(&serial);\n", "          let _ = &serial;\n", ["C06"])
m("dematerialize-drops-error", "operators/dematerialize.rs", "Material::Error(x) => sctl_next.sink_error(x),", "Material::Error(_x) => sctl_next.sink_complete_force(),", ["C04"])
# ---- C06
m("take-does-not-abort-upstream", "operators/take.rs", "            sctl_next.upstream_abort_observe(&serial);\n            sctl_next.sink_complete(&serial);\n            sctl_next.finalize();", "            sctl_next.sink_complete(&serial);", ["C06", "C17"])
m("from_iter-does-not-poll", "observables/from_iter.rs", "      if s.is_subscribed() {\n        s.next(x);\n      } else {\n        break;\n      }", "      s.next(x);", ["C06"])
m("repeat-does-not-poll", "observables/repeat.rs", "while s.is_subscribed() {", "loop {", ["C06", "C07"])
m("finalize-skips-upstreams", "internals/stream_controller.rs", "    upstreams.iter().for_each(|x| {\n      x.1.call(());\n    });", "    let _ = upstreams;", ["C06", "C05", "C17"])
m("amb-does-not-abort-losers", "operators/amb.rs", "                  sctl_next.upstream_abort_observe(&serial);", "                  let _ = &sctl_next;", ["C06"])
m("all-does-not-abort-upstream", "operators/all.rs", "            sctl_next.upstream_abort_observe(&serial);\n", "", [])
# ---- C07
m("function_wrapper-calls-under-lock", "internals/function_wrapper.rs",
  "  pub fn call_if_available(&self, indata: In) -> Option<Out> {\n    if let Some(ff) = self.fetch_function() {\n      Some((ff.func)(indata))\n    } else {\n      None\n    }",
  "  pub fn call_if_available(&self, indata: In) -> Option<Out> {\n    let g = self.inner.read().unwrap();\n    if let Some(ff) = &*g {\n      Some((ff.func)(indata))\n    } else {\n      None\n    }", ["C07"])
m("subject-next-under-map-lock", "subjects/subject.rs",
  "    self\n      .fetch_observers()\n      .into_iter()\n      .for_each(move |x| x.next(item.clone()));",
  "    let g = self.observers.read().unwrap();\n    g.iter().for_each(|x| x.1.next(item.clone()));", ["C07"])
m("scheduler-stop-lock-order", "schedulers/async_function_queue.rs",
  "    let mut que_mtx = self.data.queue.lock().unwrap();\n    que_mtx.clear();\n    *self.data.abort.write().unwrap() = true;",
  "    let mut ab = self.data.abort.write().unwrap();\n    let mut que_mtx = self.data.queue.lock().unwrap();\n    que_mtx.clear();\n    *ab = true;\n    drop(ab);", ["C07", "C08"])
# ---- C10 / C12 / C13
m("subject-complete-keeps-observers", "subjects/subject.rs", "  pub fn complete(&self) {\n    let obs = self.fetch_observers();\n    self.observers.write().unwrap().clear();", "  pub fn complete(&self) {\n    let obs = self.fetch_observers();", ["C10", "C06"])
m("behavior-does-not-store-latest", "subjects/behavior_subject.rs", "    *self.last_item.write().unwrap() = Some(item.clone());\n", "", ["C10"])
m("replay-stores-after-broadcast", "subjects/replay_subject.rs", "    (*self.items.write().unwrap()).push(item.clone());\n    self.subject.next(item);", "    self.subject.next(item.clone());\n    (*self.items.write().unwrap()).push(item);", ["C10", "C12"])
m("async-emits-every-item", "subjects/async_subject.rs", ".take_last(1)", ".take_last(2)", ["C10"])
m("subject-unsubscribe-does-not-remove", "subjects/subject.rs", "            observers.remove(&serial);\n            observers.len()", "            observers.len().saturating_sub(1)", ["C10", "C12", "C06"])
m("publish-connects-twice", "operators/publish.rs", "pub fn new(source: Observable<'a, Item>) -> Publish<'a, Item> {\n    Publish { sbj: Subject::<Item>::new(), source }", "pub fn new(source: Observable<'a, Item>) -> Publish<'a, Item> {\n    let p = Publish { sbj: Subject::<Item>::new(), source };\n    p.connect();\n    p", ["C13"])
m("ref_count-never-disconnects", "operators/ref_count.rs", "          if let Some(sbsc) = sbsc {\n            sbsc.unsubscribe();\n          }\n        }\n      });\n    }", "          let _ = sbsc;\n        }\n      });\n    }", ["C13"])
m("replay-connects-on-every-subscriber", "operators/replay.rs", "      if count == 1 {\n        // connect", "      if count >= 1 {\n        // connect", ["C13"])
# ---- C14
m("take-counter-shared", "operators/take.rs", "    let count = self.count;\n\n    Observable::<Item>::create(move |s| {\n      let n = Arc::new(RwLock::new(0));", "    let count = self.count;\n    let n = Arc::new(RwLock::new(0));\n    Observable::<Item>::create(move |s| {\n      let n = Arc::clone(&n);", ["C14", "C04"])
m("distinct-last-shared", "operators/distinct_until_changed.rs", "    Observable::<Item>::create(move |s| {\n      let last = Arc::new(RwLock::new(Option::<Item>::None));", "    let last = Arc::new(RwLock::new(Option::<Item>::None));\n    Observable::<Item>::create(move |s| {\n      let last = Arc::clone(&last);", ["C14"])
m("skip-counter-shared", "operators/skip.rs", "    Observable::<Item>::create(move |s| {\n      let n = Arc::new(RwLock::new(0));", "    let n = Arc::new(RwLock::new(0));\n    Observable::<Item>::create(move |s| {\n      let n = Arc::clone(&n);", ["C14"])
# ---- C17
m("unsubscribe-keeps-teardown-slot", "observer.rs", "    let f = self.fn_on_unsubscribe.write().unwrap().take();\n    if let Some(f) = f {\n      f.call(());\n    }\n  }\n  pub fn is_subscribed", "    let f = self.fn_on_unsubscribe.read().unwrap().clone();\n    if let Some(f) = f {\n      f.call(());\n    }\n  }\n  pub fn is_subscribed", ["C17", "C07"])
m("finalize-keeps-on_finalize", "internals/stream_controller.rs", "      f.call(());\n      *on_finalize = None;", "      f.call(());", ["C17"])

SRC = "/repo/src"
RES = "/var/tmp/mutants_results.jsonl"

def run_one(args):
    i, mu, slot = args
    d = f"/var/tmp/mut_{slot}"
    shutil.rmtree(d, ignore_errors=True)
    shutil.copytree(SRC, d + "/src")
    p = f"{d}/src/{mu['file']}"
    s = open(p).read()
    if s.count(mu['old']) < 1:
        return dict(name=mu['name'], status="PATTERN-NOT-FOUND")
    s = s.replace(mu['old'], mu['new'], mu['count'])
    open(p, 'w').write(s)
    env = dict(os.environ, ALT_TARGET=f"/var/tmp/arxv_mut_target_{slot}", ALT_ROOT=f"/var/tmp/arxv_mut_root_{slot}")
    out = dict(name=mu['name'], expect=mu['expect'], results={})
    props = mu['expect'] if mu['expect'] else ["C02"]
    if os.environ.get("MUT_ALL"):
        props = [f"C{n:02d}" for n in range(1, 20)]
    for prop in props:
        t0 = time.time()
        r = subprocess.run([os.environ.get("VERIF_DIR", "/verif") + "/tools/with_src.sh", d + "/src", "check", "--property", prop], env=env, capture_output=True, text=True)
        viol = [l for l in r.stdout.splitlines() if l.startswith("VIOLATION")]
        out['results'][prop] = dict(exit=r.returncode, violations=len(viol), secs=round(time.time() - t0, 1),
                                    msg=(next((l for l in r.stderr.splitlines() if l.startswith('[' + prop + ':')), '')[:300]))
        if r.returncode == 2:
            out['results'][prop]['stderr'] = r.stderr[-400:]
    shutil.rmtree(d, ignore_errors=True)
    return out

if __name__ == "__main__":
    sel = sys.argv[1:]
    todo = [mu for mu in M if not sel or any(x in mu['name'] for x in sel)]
    slots = 4
    # simple waves
    results = []
    for w in range(0, len(todo), slots):
        wave = todo[w:w + slots]
        with concurrent.futures.ThreadPoolExecutor(max_workers=slots) as ex:
            for r in ex.map(run_one, [(w + j, mu, j) for j, mu in enumerate(wave)]):
                results.append(r)
                with open(RES, 'a') as f:
                    f.write(json.dumps(r) + "\n")
                if r.get('status'):
                    print(f"{r['name']:45s} {r['status']}")
                    continue
                cells = " ".join(f"{p}:{'CAUGHT' if v['exit'] == 1 else ('ERR' if v['exit'] == 2 else 'missed')}({v['secs']}s)" for p, v in r['results'].items())
                print(f"{r['name']:45s} {cells}", flush=True)
