#!/bin/bash
# tools/with_src.sh <repo-src-dir> <arxv args...>
# Build the harness against another copy of the crate's sources (scratch mutant, older
# commit) in a separate target dir under /var/tmp, then run arxv with the given args.
# Evidence / replays go to a scratch root so that /verif is not touched.
SRC="$1"; shift
cd "$(dirname "$0")/.." || exit 2
export CARGO_NET_OFFLINE=true
export ARX_REPO_SRC="$SRC"
export ARX_SRC_HASH="$(find "$SRC" -type f -name '*.rs' -print0 | sort -z | xargs -0 cat | sha256sum | cut -d' ' -f1)"
export CARGO_TARGET_DIR="${ALT_TARGET:-/var/tmp/arxv_alt_target}"
cargo build --release --offline -q 2>/tmp/with_src_build.log || { cat /tmp/with_src_build.log >&2; echo "build failed" >&2; exit 2; }
SCR="${ALT_ROOT:-/var/tmp/arxv_alt_root}"
mkdir -p "$SCR"
cp -f known_findings.json "$SCR/" 2>/dev/null
rm -rf "$SCR/regress" "$SCR/known"; cp -r regress "$SCR/" 2>/dev/null; cp -r known "$SCR/" 2>/dev/null
VERIF_ROOT="$SCR" exec "$CARGO_TARGET_DIR/release/arxv" "$@"
