#!/usr/bin/env python3
"""Regenerates /verif/known_findings.json from the table below (commit ids are looked up
in /repo's history by the subject line of the fix commit)."""
import json, subprocess
log = subprocess.check_output(['git', '-C', '/repo', 'log', '--format=%h %s']).decode().splitlines()
def commit(prefix):
    for l in log:
        h, subj = l.split(' ', 1)
        if subj.startswith(prefix):
            return h
    raise SystemExit('no commit: ' + prefix)
F = []
def fixed(id, prop, what, probe, prefix):
    cm = commit(prefix)
    F.append({"id": id, "property": prop, "status": "fixed", "commit": cm, "what": what, "probe": probe,
              "line": f"fixed: property={prop} {cm} {what}"})
def open_(id, prop, what, probe, exclude):
    F.append({"id": id, "property": prop, "status": "open", "what": what, "probe": probe, "exclude": exclude,
              "line": f"KNOWN-FINDING: property={prop} {what}"})
T1 = "fix: a terminal notification ends the observer"
fixed("F01", "C01", "a directly attached subscriber received next after error (Observer terminals only cleared their own slot): create(|s|{error; next 0}) delivered <E1 0>", "regress/C01-direct-error-then-next.json", T1)
fixed("F01b", "C01", "a directly attached subscriber received complete after error: cold<E1 C> delivered <E1 C>", "regress/C01-direct-error-then-complete.json", T1)
fixed("F02", "C17", "operator pipelines that ended with a terminal kept the user's callbacks alive (finalize skipped subscriber.unsubscribe() after a terminal; observer -> teardown -> controller cycle)", "regress/C17-leak-after-terminal.json", "fix: release the subscriber's callbacks")
fixed("F03", "C17", "error(1).merge([cold<0>.skip_last(6)]): operators subscribed on behalf of an already-ended observer kept closures/items alive", "regress/C17-merge-ended-observer-item.json", "fix: do not build teardown cycles")
fixed("F04", "C17", "cold<0 C>.amb([cold<C>]).take_while(<0): take_while finished without unsubscribing its source (also contains, dematerialize) and amb never completed while a silent loser was registered", "regress/C17-take_while-amb-cycle.json", "fix: take_while, contains and dematerialize")
fixed("F04b", "C03", "a.amb([b]) with a = (item, complete) and b silent never completed", "regress/C17-take_while-amb-cycle.json", "fix: amb forwards the winner's completion")
fixed("F05", "C06", "BehaviorSubject subscriber that ends inside the hand-over callback (amb loser, take(1)) stayed registered in the inner subject", "regress/C06-behavior-handover-loser.json", "fix: Behavior/ReplaySubject do not leave")
fixed("F06", "C06", "ReplaySubject: a subscriber arriving after complete/error stayed registered in the inner subject for ever", "regress/C06-replay-subscribe-after-complete.json", "fix: Behavior/ReplaySubject do not leave")
fixed("F07", "C06", "hot0.take_until(cold<0 C>): the source Subject stored an observer that had already ended", "regress/C06-subject-registers-ended-observer.json", "fix: Subject does not register")
fixed("F08", "C02", "skip_while was inverted: cold<0 C>.skip_while(<0) delivered <C> instead of <0 C>", "regress/C02-skip_while-inverted.json", "fix: skip_while skips while")
fixed("F09", "C02", "element_at(n) beyond the end emitted the last item: cold<0 C>.element_at(2) delivered <0 C>", "regress/C02-element_at-beyond-end.json", "fix: element_at yields nothing")
fixed("F10", "C02", "window_with_count(1) never closed its first window", "regress/C02-window-count-1.json", "fix: window_with_count(1)")
fixed("F11", "C14", "tap: terminal (and, after F01, next) side effects only for the first subscription", "regress/C14-tap-second-subscription.json", "fix: tap acts for every subscription")
fixed("F12", "C03", "combine_latest behaved as zip: cold<0 C>.combine_latest([cold<0 0 C>]) delivered one tuple", "regress/C03-combine_latest-is-zip.json", "fix: combine_latest combines")
fixed("F13", "C14", "concat: the second subscriber only got the first source (queue of pending sources shared between subscriptions)", "regress/C14-concat-second-subscription.json", "fix: concat can be subscribed")
fixed("F14", "C14", "default_if_empty: 'has emitted' flag shared between subscriptions (nested subscriber of an empty run got no default)", "regress/C14-default_if_empty-shared-flag.json", "fix: default_if_empty keeps")
fixed("F15", "C03", "sequence_equal answered true when one sequence was a proper prefix of the other", "regress/C03-sequence_equal-different-length.json", "fix: sequence_equal reports false")
fixed("F16", "C07", "ref_count/replay over a synchronous source whose only subscriber ends at once (error(1).ref_count(), from_iter.ref_count().take(1)): self-deadlock (source subscribed under the write lock the disconnect hook takes)", "regress/C07-ref_count-self-deadlock-sync-error.json", "fix: ref_count and replay reconnect")
fixed("F16b", "C07", "cold<0 C>.ref_count().take(0): same self-deadlock", "regress/C07-ref_count-self-deadlock-take0.json", "fix: ref_count and replay reconnect")
fixed("F17", "C13", "cold<0>.replay(): the first subscriber received the synchronous source's items twice", "regress/C13-replay-sync-source-duplicates.json", "fix: replay() does not deliver")
fixed("F18", "C07", "emitting a terminal into a BehaviorSubject from inside its hand-over callback: self-deadlock (hand-over under the read locks of the stored state)", "regress/C07-behavior-reentrant-complete-in-handover.json", "fix: Behavior/ReplaySubject hand the stored state")
fixed("F19", "C07", "hot0.scan(+): re-entrant emission from the subscriber's callback self-deadlocked (accumulator read lock held across the downstream call)", "regress/C07-scan-reentrant-emission.json", "fix: scan emits with no lock held")
fixed("F20", "C07", "window_with_count: re-entrant emission self-deadlocked (counter write lock held across the calls)", "regress/C07-window-reentrant-emission.json", "fix: window_with_count calls its subscribers")
fixed("F21", "C15", "cold<0 C>.timeout(10): the timer armed after the last item outlived the completion by two periods", "regress/C15-timeout-timer-outlives-completion.json", "fix: timeout cancels its pending timer")
fixed("F22", "C15", "x.observe_on(new_thread) subscribed on behalf of an observer that had already ended: the scheduler thread was never aborted (introduced by the fix 'do not build teardown cycles', which stopped the late emission that used to trigger finalize; probe fails on the parent commit of this fix)", "regress/C15-observe_on-for-ended-observer-leaks-thread.json", "fix: an on_finalize action registered after")
fixed("F23", "C15", "finalize racing new_observer (subscribe_on worker subscribing an interval while the downstream errors on another thread): the upstream stayed subscribed until its next item (the race is in the original tree; this probe's schedule reproduces it on the parent commit of the fix)", "regress/C15-finalize-vs-new_observer-race.json", "fix: an upstream registered while the stream is being finalized")
fixed("F24", "C15", "timeout armed a timer while the stream was ending on another thread and never cancelled it", "regress/C15-timeout-arms-timer-while-finalizing.json", "fix: timeout cancels a timer it armed")
fixed("F25", "C07", "group_by: emitting into the source from the callback that receives a new group self-deadlocked (group map write lock held across the downstream call)", "regress/C07-group_by-reentrant-emission-from-outer-callback.json", "fix: group_by announces a new group")
fixed("F26", "C15", "timer(10).merge([cold<0 C>.subscribe_on(new), cold<0 E1>]).timeout(25): two items from different threads each armed a timer, the overwritten one was never cancelled (found by the thorough tier)", "regress/C15-timeout-concurrent-items-orphan-timer.json", "fix: timeout cancels a timer that is replaced")
fixed("F27", "C13", "cold<C>.ref_count(): after the source completed (or erred) the next first subscriber did not subscribe the source again unless the earlier subscribers had also called unsubscribe(): sub0 gets <C>, sub1 gets nothing, ever (stale source subscription left in the slot)", "regress/C13-ref_count-no-reconnect-after-terminal.json", "fix: ref_count connects again after the source ended")
fixed("F28", "C05", "hot0.observe_on(new).observe_on(new), subscriber unsubscribes from inside its first callback while another thread calls unsubscribe() too: the second caller returned at once (use-once action already taken) although the first had not cut the callbacks off yet; items emitted after that return were still delivered", "regress/C05-concurrent-second-unsubscribe-returns-early.json", "fix: a concurrent second unsubscribe()")
fixed("F29", "C04", "subject.ref_count().retry(n): the subject errs, then completes - the retry's re-subscription (made from inside the error delivery) found the old connection still in its slot and was never connected: nothing is delivered any more (a flaw of the fix for F27, pointed out by a sub-agent and reproduced once the reference interpreter could model ref_count inside pipelines)", "regress/C04-ref_count-retry-resubscribes-inside-the-error.json", "fix: ref_count gives its connection up before")
fixed("F30", "C17", "persub<C>.ref_count() (also replay()): after the subscription ended and every handle was dropped the library still owned the closures of the source pipeline - the connect closure stored in the subject's on_subscribe hook held a full clone of that subject (reference cycle). Pointed out by a sub-agent as a side remark; reproduced once the C17 generator contained ref_count / replay", "regress/C17-ref_count-hook-cycle.json", "fix: ref_count and replay no longer keep themselves alive")
fixed("F31", "C07", "hot.time_interval(): the subscriber pushes an item into the source from inside its callback - self-deadlock (the read guard of the time mark was held across the downstream call, the nested item then waits for the write lock); found when time_interval was added to the model-free generators", "regress/C07-time_interval-reentrant-emission.json", "fix: time_interval calls its subscriber")
fixed("F32", "C11", "hot0.merge([hot1]).group_by(x mod 2), two emitting threads: an item pushed into a group that another thread had just created but not yet announced downstream was lost (introduced by the fix for F25, which stopped holding the map lock across the announcement); found when group_by was put behind the combinators fed from several threads", "regress/C11-group_by-item-lost-while-announcing.json", "fix: group_by does not lose items pushed into a group")
fixed("F33", "C15", "cold<0 0 0>.observe_on_new().replay().ref_count() with a subscriber that takes 1, under a schedule with two preemptions: the subscriber is satisfied on the observe_on worker and leaves while connect is between reading its wanted flag and storing the source subscription - the subscription is stored for nobody, the source is never unsubscribed and the worker thread never exits (also C13 / C06); found by the thorough tier of C15", "regress/C15-replay-connect-stores-after-the-last-subscriber-left.json", "fix: replay() checks 'still wanted' and stores")
import os, sys
extra = os.path.join(os.path.dirname(__file__), 'known_extra.py')
if os.path.exists(extra):
    exec(open(extra).read())
json.dump({"format": "open findings: the check prints their KNOWN-FINDING line and turns the named generator exclusion on while the probe still fails; fixed findings suppress nothing, their probes are replayed as regression files by every run of their property",
           "findings": F}, open('/verif/known_findings.json', 'w'), indent=1)
print(len(F), 'entries')
