#!/usr/bin/env python3
"""Regenerates /verif/known_findings.json from the table below (commit ids are looked up
in /repo's history by the subject line of the fix commit)."""
import json, subprocess
log = subprocess.check_output(['git', '-C', '/repo', 'log', '--format=%h %s']).decode().splitlines()
def commit(prefix):
    for l in log:
        h, subj = l.split(' ', 1)
        if subj.startswith(prefix):
            return h
    raise SystemExit('no commit: ' + prefix)
F = []
def fixed(id, prop, what, probe, prefix):
    cm = commit(prefix)
    F.append({"id": id, "property": prop, "status": "fixed", "commit": cm, "what": what, "probe": probe,
              "line": f"fixed: property={prop} {cm} {what}"})
def open_(id, prop, what, probe, exclude):
    F.append({"id": id, "property": prop, "status": "open", "what": what, "probe": probe, "exclude": exclude,
              "line": f"KNOWN-FINDING: property={prop} {what}"})
T1 = "fix: a terminal notification ends the observer"
fixed("F01", "C01", "a directly attached subscriber received next after error (Observer terminals only cleared their own slot): create(|s|{error; next 0}) delivered <E1 0>", "regress/C01-direct-error-then-next.json", T1)
fixed("F01b", "C01", "a directly attached subscriber received complete after error: cold<E1 C> delivered <E1 C>", "regress/C01-direct-error-then-complete.json", T1)
fixed("F02", "C17", "operator pipelines that ended with a terminal kept the user's callbacks alive (finalize skipped subscriber.unsubscribe() after a terminal; observer -> teardown -> controller cycle)", "regress/C17-leak-after-terminal.json", "fix: release the subscriber's callbacks")
fixed("F03", "C17", "error(1).merge([cold<0>.skip_last(6)]): operators subscribed on behalf of an already-ended observer kept closures/items alive", "regress/C17-merge-ended-observer-item.json", "fix: do not build teardown cycles")
fixed("F04", "C17", "cold<0 C>.amb([cold<C>]).take_while(<0): take_while finished without unsubscribing its source (also contains, dematerialize) and amb never completed while a silent loser was registered", "regress/C17-take_while-amb-cycle.json", "fix: take_while, contains and dematerialize")
fixed("F04b", "C03", "a.amb([b]) with a = (item, complete) and b silent never completed", "regress/C17-take_while-amb-cycle.json", "fix: amb forwards the winner's completion")
fixed("F05", "C06", "BehaviorSubject subscriber that ends inside the hand-over callback (amb loser, take(1)) stayed registered in the inner subject", "regress/C06-behavior-handover-loser.json", "fix: Behavior/ReplaySubject do not leave")
fixed("F06", "C06", "ReplaySubject: a subscriber arriving after complete/error stayed registered in the inner subject for ever", "regress/C06-replay-subscribe-after-complete.json", "fix: Behavior/ReplaySubject do not leave")
fixed("F07", "C06", "hot0.take_until(cold<0 C>): the source Subject stored an observer that had already ended", "regress/C06-subject-registers-ended-observer.json", "fix: Subject does not register")
fixed("F08", "C02", "skip_while was inverted: cold<0 C>.skip_while(<0) delivered <C> instead of <0 C>", "regress/C02-skip_while-inverted.json", "fix: skip_while skips while")
fixed("F09", "C02", "element_at(n) beyond the end emitted the last item: cold<0 C>.element_at(2) delivered <0 C>", "regress/C02-element_at-beyond-end.json", "fix: element_at yields nothing")
fixed("F10", "C02", "window_with_count(1) never closed its first window", "regress/C02-window-count-1.json", "fix: window_with_count(1)")
fixed("F11", "C14", "tap: terminal (and, after F01, next) side effects only for the first subscription", "regress/C14-tap-second-subscription.json", "fix: tap acts for every subscription")
fixed("F12", "C03", "combine_latest behaved as zip: cold<0 C>.combine_latest([cold<0 0 C>]) delivered one tuple", "regress/C03-combine_latest-is-zip.json", "fix: combine_latest combines")
fixed("F13", "C14", "concat: the second subscriber only got the first source (queue of pending sources shared between subscriptions)", "regress/C14-concat-second-subscription.json", "fix: concat can be subscribed")
fixed("F14", "C14", "default_if_empty: 'has emitted' flag shared between subscriptions (nested subscriber of an empty run got no default)", "regress/C14-default_if_empty-shared-flag.json", "fix: default_if_empty keeps")
fixed("F15", "C03", "sequence_equal answered true when one sequence was a proper prefix of the other", "regress/C03-sequence_equal-different-length.json", "fix: sequence_equal reports false")
import os, sys
extra = os.path.join(os.path.dirname(__file__), 'known_extra.py')
if os.path.exists(extra):
    exec(open(extra).read())
json.dump({"format": "open findings: the check prints their KNOWN-FINDING line and turns the named generator exclusion on while the probe still fails; fixed findings suppress nothing, their probes are replayed as regression files by every run of their property",
           "findings": F}, open('/verif/known_findings.json', 'w'), indent=1)
print(len(F), 'entries')
