#!/bin/bash
# tools/confirm_seed.sh <ID> [suffix]: confirm a sub-agent's seeded change in its scratch
# worktree /tmp/seed_<ID><suffix>: (1) existing tests pass with the change, (2) the demonstration
# fails with it, (3) passes without it. Then keep patch + demo + meta under /verif/seeded/.
ID="$1"; SFX="$2"; W=/tmp/seed_${ID}${SFX}
cd "$W" || exit 2
[ -f SEED/patch.diff ] || { echo "no SEED/patch.diff"; exit 2; }
git checkout -q -- src 2>/dev/null; git apply SEED/patch.diff || { echo "patch does not apply"; exit 2; }
cp SEED/seed_demo.rs tests/seed_demo.rs 2>/dev/null
lib=$(timeout 900 cargo test --offline --lib 2>&1 | grep -E "^test result" | head -1)
doc=$(timeout 900 cargo test --offline --doc 2>&1 | grep -E "^test result" | head -1)
with=$(timeout 900 cargo test --offline --test seed_demo 2>&1 | grep -E "^test result" | head -1)
git checkout -q -- src
without=$(timeout 900 cargo test --offline --test seed_demo 2>&1 | grep -E "^test result" | head -1)
git apply SEED/patch.diff
echo "existing lib tests with change : $lib"
echo "existing doc tests with change : $doc"
echo "demo with change               : $with"
echo "demo without change            : $without"
ok=1
echo "$lib" | grep -q "ok. 179 passed; 0 failed" || ok=0
echo "$with" | grep -q "FAILED" || ok=0
echo "$without" | grep -q "ok\." || ok=0
echo "confirmed=$ok"
if [ "$ok" = 1 ]; then
  D=/verif/seeded/${ID}${SFX}; mkdir -p "$D"
  cp SEED/patch.diff "$D/patch.diff"; cp SEED/seed_demo.rs "$D/seed_demo.rs"; cp SEED/meta.json "$D/agent_meta.json"
  printf '%s\n' "existing lib tests with change : $lib" "existing doc tests with change : $doc" "demo with change : $with" "demo without change : $without" > "$D/confirmation.txt"
fi
