#!/bin/bash
# tools/try_seed.sh <patch.diff> <property ids...>: apply a seeded change to a scratch copy
# of /repo (never to /repo itself), run the named checks against it, clean up.
P="$(realpath "$1")"; shift
D=/var/tmp/seedtry_$$
rm -rf "$D"; mkdir -p "$D"; cp -r /repo/src "$D/src"
( cd "$D" && patch -p1 -s < "$P" ) || { echo "patch does not apply"; rm -rf "$D"; exit 2; }
for prop in "$@"; do
  ALT_TARGET=/var/tmp/arxv_seed_target ALT_ROOT=/var/tmp/arxv_seed_root /verif/tools/with_src.sh "$D/src" check --property "$prop" > "$D/out.txt" 2> "$D/err.txt"
  rc=$?
  echo "$prop exit=$rc $(grep -c '^VIOLATION' "$D/out.txt") violation(s): $(grep "^\[$prop:" "$D/err.txt" | grep -v evaluations | head -1 | cut -c1-400)"
done
rm -rf "$D"
