#!/bin/bash
# tools/keep_seed.sh <worktree> <demo test name> <seed id>: confirm a sub-agent's change in its
# scratch worktree (lib tests pass with it, the demonstration fails with it and passes
# without it) and copy patch.diff / demo.rs / confirmation.txt to seeded/<id>/ (meta.json is
# written by hand afterwards). The worktree keeps the change applied.
W="$1"; T="$2"; ID="$3"
cd "$W" || exit 2
git diff -- src | diff -q - patch.diff > /dev/null || { echo "patch.diff is not the tree's diff"; exit 2; }
A=$(cargo test --offline --lib 2>&1 | grep "test result" | head -1)
B=$(cargo test --offline --test "$T" 2>&1 | grep "test result" | head -1)
git apply -R patch.diff
C=$(cargo test --offline --test "$T" 2>&1 | grep "test result" | head -1)
git apply patch.diff
OUT="with-change lib: $A | demo with change: $B | demo without: $C"
echo "$OUT"
case "$A" in *"179 passed; 0 failed"*) ;; *) echo "NOT KEPT: lib tests"; exit 1;; esac
case "$B" in *FAILED*) ;; *) echo "NOT KEPT: demo does not fail with the change"; exit 1;; esac
case "$C" in *"ok."*) ;; *) echo "NOT KEPT: demo does not pass without the change"; exit 1;; esac
mkdir -p "/verif/seeded/$ID"
cp patch.diff "/verif/seeded/$ID/patch.diff"
cp "tests/$T.rs" "/verif/seeded/$ID/demo.rs"
echo "$OUT" > "/verif/seeded/$ID/confirmation.txt"
echo "kept as seeded/$ID"
