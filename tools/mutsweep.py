#!/usr/bin/env python3
"""Systematic mutation survey: mechanical mutation operators applied to the non-test part of
/repo/src, each mutant checked by the quick tiers of the properties its file is relevant to.
Usage: tools/mutsweep.py [max_mutants] [file-substring]   -> /var/tmp/mutsweep_results.jsonl
A survivor is not automatically a gap: many mechanical mutants are equivalent; survivors are
triaged by hand (DESIGN.md section 8.4)."""
import json, os, re, shutil, subprocess, sys, random, concurrent.futures, time, hashlib

SRC = "/repo/src"
RES = "/var/tmp/mutsweep_results.jsonl"
ALL = [f"C{n:02d}" for n in range(1, 20)]
def props_for(rel):
    if rel.startswith("internals/") or rel in ("observer.rs", "observable.rs", "subscription.rs"):
        return ["C01", "C05", "C06", "C17", "C03", "C07", "C11", "C19", "C14", "C15", "C13"]
    if rel.startswith("subjects/"):
        return ["C10", "C12", "C13", "C06", "C07", "C19", "C17"]
    if rel.startswith("schedulers/"):
        return ["C08", "C09", "C15", "C18"]
    if rel.startswith("observables/"):
        return ["C02", "C16", "C15", "C06"]
    if rel.startswith("utils/"):
        return ["C03", "C05", "C10", "C04"]
    name = os.path.basename(rel)[:-3]
    timed = {"delay", "debounce", "timeout", "time_interval", "timestamp", "observe_on", "subscribe_on"}
    if name in timed:
        return ["C16", "C15", "C09", "C05", "C07"]
    if name in {"publish", "ref_count", "replay"}:
        return ["C13", "C07", "C01"]
    if name == "to_vec":
        return ["C18"]
    if name in {"merge", "concat", "zip", "combine_latest", "amb", "flat_map", "take_until", "skip_until", "sample", "sequence_equal", "switch_on_next"}:
        return ["C03", "C06", "C11", "C14", "C19", "C17", "C07"]
    if name in {"retry", "retry_when", "on_error_resume_next", "materialize", "dematerialize"}:
        return ["C04", "C02", "C06", "C14", "C17"]
    return ["C02", "C06", "C14", "C17", "C07"]

OPS = [
    ("del-abort", r"^\s*\w+\.upstream_abort_observe\(&serial\);\s*$", ""),
    ("del-finalize", r"^\s*\w+\.finalize\(\);\s*$", ""),
    ("complete-force", r"\.sink_complete\(&serial\)", ".sink_complete_force()"),
    ("force-complete", r"\.sink_complete_force\(\)", ".sink_complete(&0)"),
    ("lt-le", r" < ", " <= "),
    ("ge-gt", r" >= ", " > "),
    ("gt-ge", r" > ", " >= "),
    ("eq-ne", r" == ", " != "),
    ("ne-eq", r" != ", " == "),
    ("plus1", r"\+ 1\b", "+ 2"),
    ("not", r"if !", "if "),
    ("and-or", r" && ", " || "),
    ("or-and", r" \|\| ", " && "),
    ("del-clear", r"^\s*[\w\.]+\.clear\(\);\s*$", ""),
    ("del-notify", r"^\s*self\.data\.cond\.notify_one\(\);\s*$", ""),
    ("del-next", r"^\s*\w+\.sink_next\((\w+)\);\s*$", "let _ = &\\1;"),
    ("del-unsub", r"^\s*[\w\.]+\.unsubscribe\(\);\s*$", ""),
    ("true-false", r"= true;", "= false;"),
    ("pop-front-back", r"pop_front\(\)", "pop_back()"),
    ("push-back-front", r"push_back\(", "push_front("),
]

def gen():
    out = []
    for root, _, files in os.walk(SRC):
        for f in sorted(files):
            if not f.endswith(".rs"):
                continue
            p = os.path.join(root, f)
            rel = os.path.relpath(p, SRC)
            if rel.startswith("tests") or rel.startswith("web") or rel in ("lib.rs", "macros.rs", "operators.rs", "observables.rs", "subjects.rs", "schedulers.rs", "utils.rs", "internals.rs", "material.rs", "rx_error.rs"):
                continue
            text = open(p).read()
            cut = re.search(r"#\[cfg\((all\()?test", text)
            body = text[:cut.start()] if cut else text
            lines = body.split("\n")
            for i, line in enumerate(lines):
                if line.strip().startswith("//") or "where" == line.strip() or "Clone + Send + Sync" in line:
                    continue
                for name, pat, rep in OPS:
                    for m in re.finditer(pat, line):
                        new = line[:m.start()] + m.expand(rep) + line[m.end():]
                        if new != line:
                            out.append(dict(file=rel, line=i + 1, op=name, old=line, new=new))
                        break
    return out

def run_one(args):
    mu, slot = args
    d = f"/var/tmp/msw_{slot}"
    shutil.rmtree(d, ignore_errors=True)
    shutil.copytree(SRC, d + "/src")
    p = f"{d}/src/{mu['file']}"
    lines = open(p).read().split("\n")
    assert lines[mu['line'] - 1] == mu['old']
    lines[mu['line'] - 1] = mu['new']
    open(p, 'w').write("\n".join(lines))
    env = dict(os.environ, ALT_TARGET=f"/var/tmp/arxv_mut_target_{slot}", ALT_ROOT=f"/var/tmp/arxv_mut_root_{slot}")
    res = dict(mu, results={})
    for prop in props_for(mu['file']):
        t0 = time.time()
        r = subprocess.run([os.environ.get("VERIF_DIR", "/verif") + "/tools/with_src.sh", d + "/src", "check", "--property", prop], env=env, capture_output=True, text=True)
        res['results'][prop] = dict(exit=r.returncode, secs=round(time.time() - t0, 1))
        if r.returncode == 2 and "build failed" in r.stderr:
            res['status'] = "does-not-compile"
            break
        if r.returncode == 2:
            res.setdefault('inconclusive', []).append(prop)
        if r.returncode == 1:
            res['status'] = "killed"
            res['killed_by'] = prop
            msg = next((l for l in r.stderr.splitlines() if l.startswith('[' + prop + ':') and 'evaluations=' not in l), '')
            res['msg'] = msg[:300]
            break
    else:
        res['status'] = "inconclusive" if res.get('inconclusive') else "survived"
    shutil.rmtree(d, ignore_errors=True)
    return res

if __name__ == "__main__":
    maxn = int(sys.argv[1]) if len(sys.argv) > 1 else 60
    sub = sys.argv[2] if len(sys.argv) > 2 else ""
    muts = [m for m in gen() if sub in m['file']]
    random.Random(20261002).shuffle(muts)
    off = int(os.environ.get("MUT_OFFSET", "0"))
    muts = muts[off:off + maxn]
    print(len(muts), "mutants selected", flush=True)
    slots = 4
    for w in range(0, len(muts), slots):
        wave = muts[w:w + slots]
        with concurrent.futures.ThreadPoolExecutor(max_workers=slots) as ex:
            for r in ex.map(run_one, [(mu, j) for j, mu in enumerate(wave)]):
                with open(RES, 'a') as f:
                    f.write(json.dumps(r) + "\n")
                print(f"{r['status']:18s} {r.get('killed_by',''):4s} {r['file']}:{r['line']} [{r['op']}] {r['old'].strip()[:60]!r} -> {r['new'].strip()[:60]!r}", flush=True)
