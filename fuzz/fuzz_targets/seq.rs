//! Coverage-guided tier (libFuzzer): bytes -> sequential case -> the same oracles as the
//! proptest tier. A violation is written as an ordinary replay file and reported with the
//! usual VIOLATION line before the target aborts.
#![no_main]

use arbitrary::Unstructured;
use harness::ast::*;
use harness::props::seq_inv::{fuzz_oracles, SeqCase};
use harness::props::Ctx;
use harness::val::*;
use libfuzzer_sys::fuzz_target;
use std::sync::OnceLock;

type R<T> = arbitrary::Result<T>;

fn small(u: &mut Unstructured) -> R<i64> {
  Ok(u.int_in_range(-3i64..=6)?)
}

fn script(u: &mut Unstructured, max: usize, ill: bool) -> R<Vec<Ev>> {
  let n = u.int_in_range(0..=max)?;
  let mut s = Vec::new();
  if ill {
    for _ in 0..n {
      s.push(match u.int_in_range(0u8..=5)? {
        0 => Ev::C,
        1 => Ev::E(u.int_in_range(1u32..=3)?),
        _ => Ev::N(small(u)?),
      });
    }
  } else {
    for _ in 0..n {
      s.push(Ev::N(small(u)?));
    }
    match u.int_in_range(0u8..=5)? {
      0 => {}
      1 => s.push(Ev::E(u.int_in_range(1u32..=4)?)),
      _ => s.push(Ev::C),
    }
  }
  Ok(s)
}

fn pred(u: &mut Unstructured) -> R<Pred> {
  Ok(match u.int_in_range(0u8..=6)? {
    0 => Pred::Lt(small(u)?),
    1 => Pred::Ge(small(u)?),
    2 => Pred::Eq(small(u)?),
    3 => Pred::Ne(small(u)?),
    4 => Pred::Even,
    5 => Pred::True,
    _ => Pred::False,
  })
}

fn fold(u: &mut Unstructured) -> R<Fold> {
  Ok(match u.int_in_range(0u8..=2)? {
    0 => Fold::Add,
    1 => Fold::Max,
    _ => Fold::Mix,
  })
}

fn unary(u: &mut Unstructured) -> R<Op> {
  let cnt = |u: &mut Unstructured| -> R<usize> { Ok(u.int_in_range(0usize..=6)?) };
  Ok(match u.int_in_range(0u8..=36)? {
    0 => Op::Map(match u.int_in_range(0u8..=4)? {
      0 => MapF::Add(small(u)?),
      1 => MapF::Mul(u.int_in_range(-2i64..=3)?),
      2 => MapF::Mod(u.int_in_range(1i64..=4)?),
      3 => MapF::Neg,
      _ => MapF::Const(small(u)?),
    }),
    1 => Op::Filter(pred(u)?),
    2 => Op::Take(cnt(u)?),
    3 => Op::TakeLast(cnt(u)?),
    4 => Op::TakeWhile(pred(u)?),
    5 => Op::Skip(cnt(u)?),
    6 => Op::SkipLast(cnt(u)?),
    7 => Op::SkipWhile(pred(u)?),
    8 => Op::First,
    9 => Op::Last,
    10 => Op::ElementAt(u.int_in_range(1usize..=6)?),
    11 => Op::Distinct,
    12 => Op::Scan(fold(u)?),
    13 => Op::Reduce(fold(u)?),
    14 => Op::Count,
    15 => Op::Sum,
    16 => Op::SumAndCount,
    17 => Op::Min,
    18 => Op::Max,
    19 => Op::All(pred(u)?),
    20 => Op::Contains(small(u)?),
    21 => Op::DefaultIfEmpty(small(u)?),
    22 => Op::IgnoreElements,
    23 => {
      let n = u.int_in_range(0usize..=3)?;
      let mut v = Vec::new();
      for _ in 0..n {
        v.push(small(u)?);
      }
      Op::StartWith(v)
    }
    24 => Op::Buffer(u.int_in_range(1usize..=4)?),
    25 => Op::Window(u.int_in_range(1usize..=4)?),
    26 => Op::GroupBy(u.int_in_range(1i64..=3)?),
    27 => Op::Materialize,
    28 => Op::Dematerialize,
    29 => Op::Tap,
    30 => Op::MapToAny,
    31 => Op::Retry(u.int_in_range(1usize..=4)?),
    32 => Op::RetryWhen(if u.ratio(1u8, 3u8)? { RPred::Never } else { RPred::CodeLt(u.int_in_range(1u32..=4)?) }),
    33 => Op::ObserveOnDefault,
    34 => Op::SubscribeOnDefault,
    35 => Op::Timestamp,
    _ => Op::Map(MapF::Add(0)),
  })
}

fn leaf(u: &mut Unstructured, nhot: usize, ill: bool) -> R<Node> {
  let k = u.int_in_range(0u8..=13)?;
  Ok(Node::Src(
    0,
    match k {
      0..=3 => Src::Cold { script: script(u, 6, ill)?, polite: u.arbitrary()? },
      4..=6 if nhot > 0 => Src::Hot(u.int_in_range(0..=nhot - 1)?),
      7 => {
        let n = u.int_in_range(1usize..=3)?;
        let mut v = Vec::new();
        for _ in 0..n {
          v.push(script(u, 4, false)?);
        }
        Src::PerSub { scripts: v, polite: u.arbitrary()? }
      }
      8 => Src::Just(small(u)?),
      9 => {
        let n = u.int_in_range(0usize..=5)?;
        let mut v = Vec::new();
        for _ in 0..n {
          v.push(small(u)?);
        }
        Src::FromIter(v)
      }
      10 => Src::Range(small(u)?, u.int_in_range(0i64..=5)?),
      11 => Src::Empty,
      12 => Src::Error(u.int_in_range(1u32..=4)?),
      13 => Src::Never,
      _ => Src::Cold { script: script(u, 6, ill)?, polite: true },
    },
  ))
}

fn node(u: &mut Unstructured, depth: u32, nhot: usize, ill: bool) -> R<Node> {
  if depth == 0 || u.ratio(1u8, 5u8)? {
    return leaf(u, nhot, ill);
  }
  Ok(match u.int_in_range(0u8..=9)? {
    0..=4 => Node::Un(unary(u)?, Box::new(node(u, depth - 1, nhot, ill)?)),
    5 | 6 => {
      let comb = match u.int_in_range(0u8..=4)? {
        0 => Comb::Merge,
        1 => Comb::Concat,
        2 => Comb::Zip,
        3 => Comb::CombineLatest,
        _ => Comb::Amb,
      };
      let n = u.int_in_range(1usize..=3)?;
      let mut v = Vec::new();
      for _ in 0..n {
        v.push(node(u, depth - 1, nhot, ill)?);
      }
      Node::Nary(comb, v)
    }
    7 => {
      let g = match u.int_in_range(0u8..=2)? {
        0 => Gate::TakeUntil,
        1 => Gate::SkipUntil,
        _ => Gate::Sample,
      };
      Node::Gate(g, Box::new(node(u, depth - 1, nhot, ill)?), Box::new(node(u, depth - 1, nhot, ill)?))
    }
    8 => {
      let n = u.int_in_range(1usize..=2)?;
      let mut t = Vec::new();
      for _ in 0..n {
        t.push(node(u, depth - 1, nhot, ill)?);
      }
      Node::FlatMap(Box::new(node(u, depth - 1, nhot, ill)?), t)
    }
    _ => {
      let n = u.int_in_range(1usize..=2)?;
      let mut t = Vec::new();
      for _ in 0..n {
        t.push(node(u, depth - 1, nhot, ill)?);
      }
      Node::Resume(Box::new(node(u, depth - 1, nhot, ill)?), t)
    }
  })
}

fn decode(u: &mut Unstructured) -> R<SeqCase> {
  let ill: bool = u.ratio(1u8, 4u8)?;
  let nhot = u.int_in_range(0usize..=2)?;
  let mut root = node(u, 4, nhot, ill)?;
  harness::gen::sanitize_tree(&mut root);
  let nrec = if ill { 1 } else { u.int_in_range(1usize..=2)? };
  let mut actions = vec![Action::Subscribe(0)];
  let nact = u.int_in_range(0usize..=10)?;
  let mut dead = vec![false; nhot];
  for _ in 0..nact {
    match u.int_in_range(0u8..=9)? {
      0 if nrec > 1 => actions.push(Action::Subscribe(1)),
      1 if !ill => actions.push(Action::Unsub(u.int_in_range(0..=nrec - 1)?)),
      2 if !ill => actions.push(Action::DropUsing(u.int_in_range(0..=nrec - 1)?)),
      _ if nhot > 0 => {
        let i = u.int_in_range(0..=nhot - 1)?;
        if dead[i] && !ill {
          continue;
        }
        let ev = match u.int_in_range(0u8..=7)? {
          0 => Ev::C,
          1 => Ev::E(u.int_in_range(1u32..=4)?),
          _ => Ev::N(small(u)?),
        };
        if ev.is_terminal() {
          dead[i] = true;
        }
        actions.push(Action::Emit(i, ev));
      }
      _ => {}
    }
  }
  let mut recorders: Vec<Vec<Reaction>> = vec![Vec::new(); nrec];
  if !ill && nrec > 1 && u.ratio(1u8, 4u8)? {
    recorders[0].push(Reaction { at: u.int_in_range(0usize..=2)?, what: React::Subscribe(1) });
  }
  let case = Case { root, hots: vec![HotKind::Harness; nhot], hot_illformed: ill, conn: None, conn_take: None, conn_take_only: None, recorders, actions };
  Ok(SeqCase { case: harness::gen::sanitize_case(case), hash_seed: u.int_in_range(0u64..=3)? })
}

struct Setup {
  ctx: Ctx,
  props: Vec<String>,
}

fn setup() -> &'static Setup {
  static S: OnceLock<Setup> = OnceLock::new();
  S.get_or_init(|| {
    let root = std::env::var("VERIF_ROOT").unwrap_or_else(|_| "/verif".to_string());
    let props: Vec<String> = std::env::var("ARXV_FUZZ_PROPS")
      .ok()
      .map(|s| s.split(',').filter(|x| !x.is_empty()).map(|x| x.to_string()).collect())
      .unwrap_or_default();
    Setup {
      ctx: Ctx {
        tier: harness::engine::Tier::Thorough,
        seed: 0,
        root,
        exclusions: std::sync::Arc::new(Default::default()),
        shards: 1,
      },
      props,
    }
  })
}

fuzz_target!(|data: &[u8]| {
  let mut u = Unstructured::new(data);
  let case = match decode(&mut u) {
    Ok(c) => c,
    Err(_) => return,
  };
  let s = setup();
  if let Some((prop, check, msg)) = fuzz_oracles(&s.ctx, &case, &s.props) {
    let v = serde_json::to_value(&case).unwrap();
    let path = harness::engine::write_replay(&s.ctx.root, &prop, &check, &msg, &v);
    eprintln!("[{}:{}] {}", prop, check, msg);
    println!("VIOLATION property={} replay={}", prop, path);
    panic!("violation of {}", prop);
  }
});
