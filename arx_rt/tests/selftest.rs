#[test]
fn selftest() {
  let f = arx_rt::selftest::run_all(200);
  assert!(f.is_empty(), "{:#?}", f);
}
