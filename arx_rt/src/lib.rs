//! arx_rt: controlled runtime + std facade used to run the instrumented copy of
//! another-rxrust under generated schedules and a virtual clock.

pub mod facade;
pub mod rt;
pub mod selftest;

pub use rt::{
  burn, choice_points, in_exec, lib_threads_alive, lib_threads_total, now, quiesce, run, set_release_points, settle,
  sleep_ns, spawn_named, stamp, steps, switches, thread_is_lib, thread_name, tid, yield_point,
  Config, HarnessHandle, Kind, Outcome, Schedule, ThreadInfo,
};

/// What the instrumented copy sees instead of `std`.
pub mod stdx {
  pub use std::*;

  pub mod sync {
    pub use crate::facade::{
      Barrier, BarrierWaitResult, Condvar, Mutex, MutexGuard, Once, OnceLock, RwLock, RwLockReadGuard, RwLockWriteGuard,
      WaitTimeoutResult,
    };
    pub use std::sync::*;
    pub use crate::facade::atomic;
    pub use crate::facade::mpsc;
  }

  pub mod hint {
    pub use std::hint::*;
    /// a spin-wait hint gives the other threads a turn (see `thread::yield_now`)
    pub fn spin_loop() {
      crate::facade::yield_now()
    }
  }

  pub mod thread {
    pub use crate::facade::{
      current, panicking, park, park_timeout, sleep, spawn, yield_now, Builder, JoinHandle, Thread, ThreadId,
    };
    pub use std::thread::*;
  }

  pub mod time {
    pub use crate::facade::Instant;
    pub use std::time::*;
  }

  pub mod collections {
    pub use crate::facade::{HashMap, HashSet};
    pub use std::collections::*;
  }
}
