//! Controlled runtime: every thread of an execution is a real OS thread, but exactly one
//! runs at a time; the schedule (generated data) decides who runs at every scheduling
//! point. Virtual clock, deadlock / step-budget / fuel verdicts, clean teardown.

use std::any::Any;
use std::cell::RefCell;
use std::collections::HashMap;
use std::panic::{catch_unwind, resume_unwind, AssertUnwindSafe};
use std::sync::{Arc, Condvar as StdCondvar, Mutex as StdMutex, MutexGuard as StdMutexGuard};

// ---------------------------------------------------------------------------------------
// public configuration / result types

#[derive(Clone, Debug, Default, PartialEq, Eq)]
pub struct Schedule {
  /// explicit overrides of the default rule: at the `pos`-th choice point (scheduling
  /// point with >= 2 enabled threads) run `enabled[min(idx, n-1)]`
  pub overrides: Vec<(u32, u8)>,
  /// optional dense random walk: (seed, percent of choice points at which a random
  /// enabled thread is chosen instead of the default)
  pub walk: Option<(u64, u8)>,
  /// seed of the deterministic hasher used by facade HashMaps created in this execution
  pub hash_seed: u64,
  /// FIFO (false) or LIFO (true) choice of the waiter woken by notify_one
  pub notify_lifo: bool,
  /// an imperfect platform: spurious condvar wake-ups (3 % of the scheduling steps),
  /// spurious returns of thread::park (15 %) and a thread start latency of 1 us
  pub spurious: bool,
  /// PCT (probabilistic concurrency testing): (seed, depth d, expected number of choice
  /// points k): every thread gets a random priority, the highest-priority enabled thread
  /// runs, and at d-1 random choice points the running thread drops to the lowest priority
  pub pct: Option<(u64, u8, u16)>,
}

#[derive(Clone, Debug)]
pub struct Config {
  pub schedule: Schedule,
  pub max_steps: u64,
  pub fuel: i64,
}

impl Default for Config {
  fn default() -> Self {
    Config { schedule: Schedule::default(), max_steps: 200_000, fuel: 2_000_000 }
  }
}

#[derive(Clone, Debug, PartialEq, Eq)]
pub enum Kind {
  /// every thread finished
  Done,
  /// nothing can run any more and the only threads left are parked on condition variables
  Quiescent,
  /// nothing can run any more and some thread waits for a lock or a join
  Deadlock,
  StepBudget,
  FuelExhausted,
  Panic,
}

#[derive(Clone, Debug)]
pub struct ThreadInfo {
  pub tid: usize,
  pub name: String,
  pub lib: bool,
  pub finished: bool,
  pub spawned_at: u64,
  pub finished_at: Option<u64>,
  pub wait: String,
}

#[derive(Clone, Debug)]
pub struct Outcome {
  pub kind: Kind,
  pub threads: Vec<ThreadInfo>,
  pub clock: u64,
  pub steps: u64,
  pub choice_points: u32,
  /// non-default decisions actually taken, as (choice point, index into the enabled set):
  /// replaying them as `Schedule::overrides` (no walk) reproduces the execution
  pub taken: Vec<(u32, u8)>,
  pub switches: u32,
  pub panics: Vec<String>,
  pub leaked_os_threads: usize,
}

impl Outcome {
  pub fn main_finished(&self) -> bool {
    self.threads.first().map(|t| t.finished).unwrap_or(false)
  }
  pub fn blocked(&self) -> Vec<&ThreadInfo> {
    self.threads.iter().filter(|t| !t.finished).collect()
  }
  pub fn describe(&self) -> String {
    let b: Vec<String> =
      self.blocked().iter().map(|t| format!("{}:{}", t.name, t.wait)).collect();
    format!(
      "{:?} steps={} clock={}ns blocked=[{}] panics={:?}",
      self.kind,
      self.steps,
      self.clock,
      b.join(", "),
      self.panics
    )
  }
}

// ---------------------------------------------------------------------------------------
// internal state

#[derive(Clone, Debug, PartialEq, Eq)]
pub(crate) enum Wait {
  Run,
  Read(usize),
  Write(usize),
  Lock(usize),
  Cond(usize, usize),
  /// (condvar, mutex, deadline on the virtual clock)
  CondTimed(usize, usize, u64),
  Sleep(u64),
  Join(usize),
  Idle { time: bool },
  /// `thread::park` (with an optional deadline on the virtual clock)
  Park(Option<u64>),
}

struct Th {
  park_token: bool,
  timed_out: bool,
  name: String,
  lib: bool,
  wait: Wait,
  finished: bool,
  cv: Arc<StdCondvar>,
  spawned_at: u64,
  finished_at: Option<u64>,
}

#[derive(Default)]
struct LockSt {
  readers: Vec<usize>,
  writer: Option<usize>,
}

struct SchedSt {
  overrides: Vec<(u32, u8)>,
  walk: Option<(u64, u8)>,
  rng: u64,
  notify_lifo: bool,
  spurious: bool,
  pct: Option<(u64, u8, u16)>,
  pct_prio: Vec<i64>,
  pct_change: Vec<u32>,
  pct_low: i64,
}

struct State {
  threads: Vec<Th>,
  cur: Option<usize>,
  clock: u64,
  steps: u64,
  max_steps: u64,
  fuel: i64,
  stamp: u64,
  locks: HashMap<usize, LockSt>,
  conds: HashMap<usize, Vec<usize>>,
  lock_names: HashMap<usize, usize>,
  sched: SchedSt,
  choice_points: u32,
  /// the running thread gave up its turn explicitly (`thread::yield_now`, `hint::spin_loop`)
  yielding: bool,
  taken: Vec<(u32, u8)>,
  switches: u32,
  aborted: bool,
  over: bool,
  kind: Option<Kind>,
  panics: Vec<String>,
  os_handles: Vec<(usize, PoolHandle)>,
  leaked: Vec<usize>,
}

pub struct Exec {
  st: StdMutex<State>,
  done_cv: StdCondvar,
  pub(crate) hash_seed: u64,
  pub(crate) serial: u64,
}

#[derive(Clone)]
pub struct Ctx {
  pub(crate) exec: Arc<Exec>,
  pub(crate) tid: usize,
}

thread_local! {
  static CUR: RefCell<Option<Ctx>> = const { RefCell::new(None) };
}

pub(crate) fn current() -> Option<Ctx> {
  CUR.with(|c| c.borrow().clone())
}

/// payload used to unwind the threads of an execution that is over
struct Abort;

fn unwind_abort() -> ! {
  resume_unwind(Box::new(Abort))
}

fn lock_state(exec: &Exec) -> StdMutexGuard<'_, State> {
  match exec.st.lock() {
    Ok(g) => g,
    Err(p) => p.into_inner(),
  }
}

fn splitmix(x: &mut u64) -> u64 {
  *x = x.wrapping_add(0x9E3779B97F4A7C15);
  let mut z = *x;
  z = (z ^ (z >> 30)).wrapping_mul(0xBF58476D1CE4E5B9);
  z = (z ^ (z >> 27)).wrapping_mul(0x94D049BB133111EB);
  z ^ (z >> 31)
}

impl State {
  fn enabled(&self, t: usize) -> bool {
    let th = &self.threads[t];
    if th.finished {
      return false;
    }
    match &th.wait {
      Wait::Run => true,
      Wait::Read(l) => match self.locks.get(l) {
        None => true,
        Some(ls) => {
          if ls.writer.is_some() {
            false
          } else if ls.readers.is_empty() {
            true
          } else {
            // futex RwLock is writer-preferring: a read is refused while the lock is
            // read-held and some writer is queued
            !self
              .threads
              .iter()
              .any(|o| !o.finished && o.wait == Wait::Write(*l))
          }
        }
      },
      Wait::Write(l) | Wait::Lock(l) => match self.locks.get(l) {
        None => true,
        Some(ls) => ls.writer.is_none() && ls.readers.is_empty(),
      },
      Wait::Cond(_, _) => false,
      Wait::CondTimed(_, _, _) => false,
      Wait::Sleep(t) => self.clock >= *t,
      Wait::Join(t) => self.threads[*t].finished,
      Wait::Idle { .. } => false,
      Wait::Park(dl) => th.park_token || dl.map_or(false, |d| self.clock >= d),
    }
  }

  fn grant(&mut self, t: usize) {
    let w = std::mem::replace(&mut self.threads[t].wait, Wait::Run);
    match w {
      Wait::Read(l) => self.locks.entry(l).or_default().readers.push(t),
      Wait::Write(l) | Wait::Lock(l) => self.locks.entry(l).or_default().writer = Some(t),
      _ => {}
    }
  }

  fn release(&mut self, l: usize, t: usize, write: bool) {
    let mut empty = false;
    if let Some(ls) = self.locks.get_mut(&l) {
      if write {
        if ls.writer == Some(t) {
          ls.writer = None;
        }
      } else if let Some(p) = ls.readers.iter().position(|x| *x == t) {
        ls.readers.swap_remove(p);
      }
      empty = ls.writer.is_none() && ls.readers.is_empty();
    }
    if empty {
      self.locks.remove(&l);
    }
  }

  fn lock_name(&mut self, l: usize) -> usize {
    let n = self.lock_names.len();
    *self.lock_names.entry(l).or_insert(n)
  }

  fn wait_desc(&mut self, t: usize) -> String {
    let w = self.threads[t].wait.clone();
    match w {
      Wait::Run => "Run".into(),
      Wait::Read(l) => format!("Read(L{}{})", self.lock_name(l), self.holders(l)),
      Wait::Write(l) => format!("Write(L{}{})", self.lock_name(l), self.holders(l)),
      Wait::Lock(l) => format!("Lock(M{}{})", self.lock_name(l), self.holders(l)),
      Wait::Cond(c, _) => format!("Cond(C{})", self.lock_name(c)),
      Wait::CondTimed(c, _, d) => format!("CondTimed(C{}, until {})", self.lock_name(c), d),
      Wait::Sleep(t) => format!("Sleep(until {})", t),
      Wait::Join(t) => format!("Join({})", self.threads[t].name),
      Wait::Idle { time } => format!("Idle(time={})", time),
      Wait::Park(dl) => format!("Park({:?})", dl),
    }
  }

  fn holders(&self, l: usize) -> String {
    match self.locks.get(&l) {
      None => String::new(),
      Some(ls) => {
        let mut s = String::from(" held by");
        if let Some(w) = ls.writer {
          s.push_str(&format!(" w:{}", self.threads[w].name));
        }
        for r in &ls.readers {
          s.push_str(&format!(" r:{}", self.threads[*r].name));
        }
        s
      }
    }
  }

  /// decide who runs next; `None` = nothing can ever run again
  fn choose(&mut self) -> Option<usize> {
    loop {
      let n = self.threads.len();
      // timed condvar waits whose deadline has passed turn into plain re-acquisitions
      for t in 0..n {
        if self.threads[t].finished {
          continue;
        }
        if let Wait::CondTimed(c, m, dl) = self.threads[t].wait {
          if self.clock >= dl {
            if let Some(ws) = self.conds.get_mut(&c) {
              ws.retain(|x| *x != t);
              if ws.is_empty() {
                self.conds.remove(&c);
              }
            }
            self.threads[t].wait = Wait::Lock(m);
            self.threads[t].timed_out = true;
          }
        }
      }
      if self.sched.spurious {
        // spurious wake-up: some condvar waiter re-acquires its mutex without a notify
        let r = splitmix(&mut self.sched.rng);
        if r % 100 < 3 {
          let ws: Vec<usize> = (0..n)
            .filter(|t| !self.threads[*t].finished && matches!(self.threads[*t].wait, Wait::Cond(_, _)))
            .collect();
          if !ws.is_empty() {
            let t = ws[((r >> 20) as usize) % ws.len()];
            if let Wait::Cond(c, m) = self.threads[t].wait {
              if let Some(w) = self.conds.get_mut(&c) {
                w.retain(|x| *x != t);
                if w.is_empty() {
                  self.conds.remove(&c);
                }
              }
              self.threads[t].wait = Wait::Lock(m);
            }
          }
        }
      }
      let en: Vec<usize> = (0..n).filter(|t| self.enabled(*t)).collect();
      if !en.is_empty() {
        return Some(self.pick(&en));
      }
      // settle(): returns before the clock moves
      if let Some(t) = (0..n).find(|t| {
        !self.threads[*t].finished && self.threads[*t].wait == Wait::Idle { time: false }
      }) {
        return Some(t);
      }
      // advance the virtual clock to the earliest sleeper
      let mut earliest: Option<u64> = None;
      for th in &self.threads {
        if !th.finished {
          if let Wait::Sleep(t) = th.wait {
            earliest = Some(earliest.map_or(t, |e: u64| e.min(t)));
          }
          if let Wait::CondTimed(_, _, t) = th.wait {
            earliest = Some(earliest.map_or(t, |e: u64| e.min(t)));
          }
          if let Wait::Park(Some(t)) = th.wait {
            earliest = Some(earliest.map_or(t, |e: u64| e.min(t)));
          }
        }
      }
      if let Some(t) = earliest {
        if t > self.clock {
          self.clock = t;
        }
        continue;
      }
      if let Some(t) = (0..n).find(|t| {
        !self.threads[*t].finished && self.threads[*t].wait == Wait::Idle { time: true }
      }) {
        return Some(t);
      }
      return None;
    }
  }

  fn pick(&mut self, en: &[usize]) -> usize {
    let yielding = std::mem::replace(&mut self.yielding, false);
    let default = match self.cur {
      // an explicit yield hands the turn to the next enabled thread (round robin), so
      // that a spin-wait with yield_now makes progress under every schedule
      Some(c) if yielding && en.len() >= 2 => *en.iter().find(|t| **t > c).unwrap_or(&en[0]),
      Some(c) if en.contains(&c) => c,
      _ => en[0],
    };
    if en.len() < 2 {
      return default;
    }

    let pos = self.choice_points;
    self.choice_points += 1;
    let mut chosen = default;
    if let Some(&(_, idx)) = self.sched.overrides.iter().find(|(p, _)| *p == pos) {
      chosen = en[(idx as usize).min(en.len() - 1)];
    } else if let Some((seed, _, _)) = self.sched.pct {
      // priorities are drawn lazily, as threads appear
      while self.sched.pct_prio.len() < self.threads.len() {
        let t = self.sched.pct_prio.len() as u64;
        let mut x = seed.wrapping_add(t.wrapping_mul(0x9E37_79B9));
        self.sched.pct_prio.push(1_000 + (splitmix(&mut x) % 1_000_000) as i64);
      }
      if self.sched.pct_change.contains(&pos) || yielding {
        if let Some(c) = self.cur {
          self.sched.pct_low -= 1;
          self.sched.pct_prio[c] = self.sched.pct_low;
        }
      }
      chosen = *en.iter().max_by_key(|t| self.sched.pct_prio[**t]).unwrap();
    } else if let Some((_, pct)) = self.sched.walk {
      let r = splitmix(&mut self.sched.rng);
      if (r % 100) < pct as u64 {
        chosen = en[((r >> 32) as usize) % en.len()];
      }
    }
    if chosen != default {
      let idx = en.iter().position(|t| *t == chosen).unwrap();
      self.taken.push((pos, idx as u8));
    }
    chosen
  }

  fn terminal_kind(&self) -> Kind {
    let mut any_unfinished = false;
    let mut any_lock = false;
    for th in &self.threads {
      if !th.finished {
        any_unfinished = true;
        match th.wait {
          Wait::Cond(_, _) | Wait::CondTimed(_, _, _) | Wait::Park(_) => {}
          _ => any_lock = true,
        }
      }
    }
    if !any_unfinished {
      Kind::Done
    } else if any_lock {
      Kind::Deadlock
    } else {
      Kind::Quiescent
    }
  }

  /// end the execution: wake everybody so that they unwind
  fn finish(&mut self, exec: &Exec, kind: Kind) {
    if self.over {
      return;
    }
    self.kind = Some(kind);
    self.over = true;
    self.aborted = true;
    self.cur = None;
    for th in &self.threads {
      th.cv.notify_all();
    }
    exec.done_cv.notify_all();
  }
}

// ---------------------------------------------------------------------------------------
// scheduling points

pub(crate) enum Mode {
  /// inside a live execution: the model granted the operation
  Model(Ctx),
  /// not inside an execution: behave like std
  Free,
  /// inside an execution that is over while this thread is already unwinding: must not
  /// unwind again, use non-blocking real primitives
  FreeTry,
}

/// The one place where a thread gives up the baton. `wait` describes what it needs.
/// Returns only when the model granted it (or in one of the free modes).
pub(crate) fn sched_point(wait: Wait) -> Mode {
  let ctx = match current() {
    Some(c) => c,
    None => return Mode::Free,
  };
  {
    let exec = ctx.exec.clone();
    let me = ctx.tid;
    let mut st = lock_state(&exec);
    if std::thread::panicking() {
      // a genuinely panicking thread (or one unwinding after the end) runs destructors:
      // it must never unwind again nor wait for the baton
      if !st.aborted {
        st.finish(&exec, Kind::Panic);
      }
      return Mode::FreeTry;
    }
    if st.aborted {
      drop(st);
      unwind_abort();
    }
    st.threads[me].wait = wait;
    st.steps += 1;
    if st.steps > st.max_steps {
      st.finish(&exec, Kind::StepBudget);
      drop(st);
      unwind_abort();
    }
    match st.choose() {
      None => {
        let k = st.terminal_kind();
        st.finish(&exec, k);
        drop(st);
        unwind_abort();
      }
      Some(t) => {
        if st.cur != Some(t) {
          st.switches += 1;
        }
        st.cur = Some(t);
        st.grant(t);
        if t != me {
          let cv = st.threads[t].cv.clone();
          cv.notify_all();
          let mycv = st.threads[me].cv.clone();
          while st.cur != Some(me) && !st.aborted {
            st = match mycv.wait(st) {
              Ok(g) => g,
              Err(p) => p.into_inner(),
            };
          }
          if st.aborted {
            drop(st);
            unwind_abort();
          }
        }
      }
    }
  }
  Mode::Model(ctx)
}

/// A scheduling point *inside* a critical section, right after an acquisition: needed so
/// that another thread can observe the lock as held (try_lock / try_write based code
/// behaves differently then). Skipped while the execution has a single live thread.
pub(crate) fn post_acquire_point(ctx: &Ctx) {
  let multi = {
    let st = lock_state(&ctx.exec);
    st.threads.iter().filter(|t| !t.finished).count() > 1
  };
  if multi {
    let _ = sched_point(Wait::Run);
  }
}

static RELEASE_POINTS: std::sync::atomic::AtomicBool = std::sync::atomic::AtomicBool::new(false);

/// Also make the moment just before a lock is released a scheduling point. Only code that
/// uses try_lock-style operations can tell "still held" from "just released", so the
/// harness switches this on exactly for such code (it costs about half as many steps again).
pub fn set_release_points(on: bool) {
  RELEASE_POINTS.store(on, std::sync::atomic::Ordering::SeqCst);
}

pub(crate) fn pre_release_point(ctx: &Ctx) {
  if RELEASE_POINTS.load(std::sync::atomic::Ordering::Relaxed) && !std::thread::panicking() {
    let live = {
      let st = lock_state(&ctx.exec);
      !st.aborted && st.threads.iter().filter(|t| !t.finished).count() > 1
    };
    if live {
      let _ = sched_point(Wait::Run);
    }
  }
}

/// non-blocking acquisition: a scheduling point, then the model decides at once
pub(crate) enum TryMode {
  Granted(Ctx),
  Refused,
  Free,
}

pub(crate) fn try_acquire(wait: Wait) -> TryMode {
  match sched_point(Wait::Run) {
    Mode::Model(ctx) => {
      let mut st = lock_state(&ctx.exec);
      if st.aborted {
        return TryMode::Free;
      }
      let me = ctx.tid;
      st.threads[me].wait = wait;
      if st.enabled(me) {
        st.grant(me);
        drop(st);
        TryMode::Granted(ctx)
      } else {
        st.threads[me].wait = Wait::Run;
        TryMode::Refused
      }
    }
    _ => TryMode::Free,
  }
}

pub(crate) fn release(ctx: &Ctx, l: usize, write: bool) {
  let mut st = lock_state(&ctx.exec);
  if st.aborted {
    return;
  }
  st.release(l, ctx.tid, write);
}

/// atomically release mutex `m`, become a waiter of condvar `c`, and give up the baton;
/// returns when notified *and* the model granted `m` again
pub(crate) fn cond_wait(ctx: &Ctx, c: usize, m: usize) {
  {
    let mut st = lock_state(&ctx.exec);
    if st.aborted {
      drop(st);
      if std::thread::panicking() {
        park_forever(ctx);
      }
      unwind_abort();
    }
    st.release(m, ctx.tid, true);
    st.conds.entry(c).or_default().push(ctx.tid);
  }
  match sched_point(Wait::Cond(c, m)) {
    Mode::Model(_) => {}
    _ => park_forever(ctx),
  }
}

/// like cond_wait with a deadline `ns` from now on the virtual clock; true = timed out
pub(crate) fn cond_wait_timed(ctx: &Ctx, c: usize, m: usize, ns: u64) -> bool {
  {
    let mut st = lock_state(&ctx.exec);
    if st.aborted {
      drop(st);
      if std::thread::panicking() {
        park_forever(ctx);
      }
      unwind_abort();
    }
    st.release(m, ctx.tid, true);
    st.conds.entry(c).or_default().push(ctx.tid);
    st.threads[ctx.tid].timed_out = false;
  }
  let deadline = {
    let st = lock_state(&ctx.exec);
    st.clock.saturating_add(ns)
  };
  match sched_point(Wait::CondTimed(c, m, deadline)) {
    Mode::Model(_) => {}
    _ => park_forever(ctx),
  }
  let mut st = lock_state(&ctx.exec);
  let t = st.threads[ctx.tid].timed_out;
  st.threads[ctx.tid].timed_out = false;
  t
}

pub(crate) fn cond_notify(ctx: &Ctx, c: usize, all: bool) {
  {
    let mut st = lock_state(&ctx.exec);
    if st.aborted {
      return;
    }
    let lifo = st.sched.notify_lifo;
    let mut woken = Vec::new();
    if let Some(ws) = st.conds.get_mut(&c) {
      if all {
        woken.append(ws);
      } else if !ws.is_empty() {
        let t = if lifo { ws.pop().unwrap() } else { ws.remove(0) };
        woken.push(t);
      }
      if ws.is_empty() {
        st.conds.remove(&c);
      }
    }
    for t in woken {
      match st.threads[t].wait {
        Wait::Cond(_, m) | Wait::CondTimed(_, m, _) => st.threads[t].wait = Wait::Lock(m),
        _ => {}
      }
    }
  }
  let _ = sched_point(Wait::Run);
}

/// last resort for a thread that must neither unwind nor continue
pub(crate) fn park_forever(ctx: &Ctx) -> ! {
  {
    let mut st = lock_state(&ctx.exec);
    st.leaked.push(ctx.tid);
  }
  loop {
    std::thread::park();
  }
}

// ---------------------------------------------------------------------------------------
// threads

fn install_hook() {
  use std::sync::Once;
  static ONCE: Once = Once::new();
  ONCE.call_once(|| {
    let prev = std::panic::take_hook();
    std::panic::set_hook(Box::new(move |info| {
      if let Some(ctx) = current() {
        let msg = if let Some(s) = info.payload().downcast_ref::<&str>() {
          s.to_string()
        } else if let Some(s) = info.payload().downcast_ref::<String>() {
          s.clone()
        } else {
          "<non-string panic>".to_string()
        };
        let loc = info
          .location()
          .map(|l| format!("{}:{}", l.file(), l.line()))
          .unwrap_or_default();
        let mut st = lock_state(&ctx.exec);
        let name = st.threads[ctx.tid].name.clone();
        st.panics.push(format!("{}: {} @ {}", name, msg, loc));
      } else {
        prev(info);
      }
    }));
  });
}

fn thread_main(exec: Arc<Exec>, tid: usize, body: Box<dyn FnOnce() + Send>) {
  CUR.with(|c| *c.borrow_mut() = Some(Ctx { exec: exec.clone(), tid }));
  // wait for the baton
  let start = {
    let mut st = lock_state(&exec);
    let mycv = st.threads[tid].cv.clone();
    while st.cur != Some(tid) && !st.aborted {
      st = match mycv.wait(st) {
        Ok(g) => g,
        Err(p) => p.into_inner(),
      };
    }
    !st.aborted
  };
  if start {
    // an imperfect platform (schedules with spurious wake-ups) also starts threads late: one
    // microsecond of virtual time passes before a new thread runs its first instruction
    let late = lock_state(&exec).sched.spurious;
    let r = catch_unwind(AssertUnwindSafe(move || {
      if late {
        sleep_ns(1_000);
      }
      body()
    }));
    let mut st = lock_state(&exec);
    let was_aborted = st.aborted;
    if let Err(p) = r {
      if !is_abort(&p) && !was_aborted {
        st.finish(&exec, Kind::Panic);
      }
      // dropping a foreign payload may run arbitrary code; keep it simple
      std::mem::forget(p);
    }
    if !was_aborted {
      // threads that only ended because the execution was aborted do not count
      st.threads[tid].finished = true;
      st.threads[tid].finished_at = Some(st.clock);
    }
    if !st.aborted {
      st.steps += 1;
      match st.choose() {
        Some(t) => {
          st.switches += 1;
          st.cur = Some(t);
          st.grant(t);
          st.threads[t].cv.notify_all();
        }
        None => {
          let k = st.terminal_kind();
          st.finish(&exec, k);
        }
      }
    }
  } else {
    drop(body);
  }
  CUR.with(|c| *c.borrow_mut() = None);
}

fn is_abort(p: &Box<dyn Any + Send>) -> bool {
  p.is::<Abort>()
}

// virtual size only; deep (runaway) recursions must hit the step budget before the stack ends
const STACK: usize = 128 << 20;

// ---------------------------------------------------------------------------------------
// OS thread pool: executions create and finish threads at a high rate; reusing parked OS
// threads avoids the mmap / munmap churn of fresh 8 MB stacks

pub(crate) struct PoolHandle {
  done: Arc<(StdMutex<bool>, StdCondvar)>,
}

impl PoolHandle {
  pub(crate) fn is_finished(&self) -> bool {
    match self.done.0.lock() {
      Ok(g) => *g,
      Err(p) => *p.into_inner(),
    }
  }
}

type Job = (Box<dyn FnOnce() + Send>, Arc<(StdMutex<bool>, StdCondvar)>);

struct Pool {
  q: StdMutex<(std::collections::VecDeque<Job>, usize)>,
  cv: StdCondvar,
}

fn pool() -> &'static Pool {
  use std::sync::OnceLock;
  static P: OnceLock<Pool> = OnceLock::new();
  P.get_or_init(|| Pool { q: StdMutex::new((std::collections::VecDeque::new(), 0)), cv: StdCondvar::new() })
}

fn pool_spawn(f: Box<dyn FnOnce() + Send>) -> PoolHandle {
  let done = Arc::new((StdMutex::new(false), StdCondvar::new()));
  let p = pool();
  let need_thread = {
    let mut g = match p.q.lock() {
      Ok(g) => g,
      Err(e) => e.into_inner(),
    };
    g.0.push_back((f, done.clone()));
    // g.1 = number of idle workers
    if g.1 >= g.0.len() {
      false
    } else {
      true
    }
  };
  if need_thread {
    std::thread::Builder::new()
      .stack_size(STACK)
      .spawn(move || loop {
        let job = {
          let p = pool();
          let mut g = match p.q.lock() {
            Ok(g) => g,
            Err(e) => e.into_inner(),
          };
          loop {
            if let Some(j) = g.0.pop_front() {
              break j;
            }
            g.1 += 1;
            g = match p.cv.wait(g) {
              Ok(g) => g,
              Err(e) => e.into_inner(),
            };
            g.1 -= 1;
          }
        };
        let (f, done) = job;
        // thread_main catches every unwind itself
        let _ = catch_unwind(AssertUnwindSafe(f));
        if let Ok(mut d) = done.0.lock() {
          *d = true;
        }
        done.1.notify_all();
      })
      .expect("spawn OS thread");
  } else {
    p.cv.notify_one();
  }
  PoolHandle { done }
}


/// register + start a new thread of the current execution; returns its tid
pub(crate) fn spawn_in(ctx: &Ctx, name: Option<String>, lib: bool, body: Box<dyn FnOnce() + Send>) -> usize {
  let tid = {
    let mut st = lock_state(&ctx.exec);
    if st.aborted {
      drop(st);
      if std::thread::panicking() {
        // cannot start anything any more; pretend the thread never runs
        return usize::MAX;
      }
      unwind_abort();
    }
    let tid = st.threads.len();
    let nm = name.unwrap_or_else(|| format!("lib{}", tid));
    let clock = st.clock;
    st.threads.push(Th {
      name: nm,
      lib,
      timed_out: false,
      park_token: false,
      wait: Wait::Run,
      finished: false,
      cv: Arc::new(StdCondvar::new()),
      spawned_at: clock,
      finished_at: None,
    });
    let exec = ctx.exec.clone();
    let h = pool_spawn(Box::new(move || thread_main(exec, tid, body)));
    st.os_handles.push((tid, h));
    tid
  };
  let _ = sched_point(Wait::Run);
  tid
}

/// Run `main` as thread 0 of a fresh execution under `cfg`; returns when the execution is
/// over and every OS thread it created is gone.
pub fn run<F>(cfg: Config, main: F) -> Outcome
where
  F: FnOnce() + Send + 'static,
{
  install_hook();
  assert!(current().is_none(), "arx_rt::run cannot be nested");
  let exec = Arc::new(Exec {
    st: StdMutex::new(State {
      threads: vec![Th {
        name: "main".into(),
        lib: false,
        timed_out: false,
        park_token: false,
        wait: Wait::Run,
        finished: false,
        cv: Arc::new(StdCondvar::new()),
        spawned_at: 0,
        finished_at: None,
      }],
      cur: None,
      clock: 0,
      steps: 0,
      max_steps: cfg.max_steps,
      fuel: cfg.fuel,
      stamp: 0,
      locks: HashMap::new(),
      conds: HashMap::new(),
      lock_names: HashMap::new(),
      sched: SchedSt {
        overrides: cfg.schedule.overrides.clone(),
        walk: cfg.schedule.walk,
        rng: cfg.schedule.walk.map(|w| w.0).unwrap_or(0),
        notify_lifo: cfg.schedule.notify_lifo,
        spurious: cfg.schedule.spurious,
        pct: cfg.schedule.pct,
        pct_prio: Vec::new(),
        pct_change: {
          let mut v = Vec::new();
          if let Some((seed, d, k)) = cfg.schedule.pct {
            let mut x = seed ^ 0xA5A5_5A5A_1234_5678;
            for _ in 1..d.max(1) {
              v.push((splitmix(&mut x) % (k.max(1) as u64)) as u32);
            }
          }
          v
        },
        pct_low: 0,
      },
      choice_points: 0,
      yielding: false,
      taken: Vec::new(),
      switches: 0,
      aborted: false,
      over: false,
      kind: None,
      panics: Vec::new(),
      os_handles: Vec::new(),
      leaked: Vec::new(),
    }),
    done_cv: StdCondvar::new(),
    hash_seed: cfg.schedule.hash_seed,
    serial: {
      static SERIAL: std::sync::atomic::AtomicU64 = std::sync::atomic::AtomicU64::new(1);
      SERIAL.fetch_add(1, std::sync::atomic::Ordering::Relaxed)
    },
  });
  // thread 0 runs on the calling OS thread (no thread creation for sequential cases)
  {
    let mut st = lock_state(&exec);
    st.cur = Some(0);
  }
  thread_main(exec.clone(), 0, Box::new(main));
  // wait for the end
  {
    let mut st = lock_state(&exec);
    while !st.over {
      st = match exec.done_cv.wait(st) {
        Ok(g) => g,
        Err(p) => p.into_inner(),
      };
    }
  }
  // join every OS thread (they unwind with the private payload); threads that had to be
  // parked for good are skipped
  let mut leaked_os = 0usize;
  loop {
    let next = {
      let mut st = lock_state(&exec);
      st.os_handles.pop()
    };
    let (tid, h) = match next {
      Some(x) => x,
      None => break,
    };
    let mut waited = 0u32;
    loop {
      if h.is_finished() {
        break;
      }
      let is_leaked = {
        let st = lock_state(&exec);
        st.leaked.contains(&tid)
      };
      if is_leaked || waited > 20_000 {
        leaked_os += 1;
        break;
      }
      std::thread::sleep(std::time::Duration::from_micros(if waited < 50 { 20 } else { 500 }));
      waited += 1;
    }
  }
  let mut st = lock_state(&exec);
  let n = st.threads.len();
  let mut infos = Vec::with_capacity(n);
  for t in 0..n {
    let wait = if st.threads[t].finished { "finished".to_string() } else { st.wait_desc(t) };
    let th = &st.threads[t];
    infos.push(ThreadInfo {
      tid: t,
      name: th.name.clone(),
      lib: th.lib,
      finished: th.finished,
      spawned_at: th.spawned_at,
      finished_at: th.finished_at,
      wait,
    });
  }
  // threads that finished only because of the abort do not count as finished
  Outcome {
    kind: st.kind.clone().unwrap_or(Kind::Done),
    threads: infos,
    clock: st.clock,
    steps: st.steps,
    choice_points: st.choice_points,
    taken: st.taken.clone(),
    switches: st.switches,
    panics: st.panics.clone(),
    leaked_os_threads: leaked_os,
  }
}

// ---------------------------------------------------------------------------------------
// harness services

pub fn in_exec() -> bool {
  current().is_some()
}

/// global logical clock of harness-visible events (only one thread runs at a time, so
/// stamps are a total order)
pub fn stamp() -> u64 {
  match current() {
    Some(ctx) => {
      let mut st = lock_state(&ctx.exec);
      st.stamp += 1;
      st.stamp
    }
    None => 0,
  }
}

pub fn tid() -> usize {
  current().map(|c| c.tid).unwrap_or(usize::MAX)
}

pub fn thread_name() -> String {
  match current() {
    Some(ctx) => lock_state(&ctx.exec).threads[ctx.tid].name.clone(),
    None => "<outside>".into(),
  }
}

pub fn thread_is_lib() -> bool {
  match current() {
    Some(ctx) => lock_state(&ctx.exec).threads[ctx.tid].lib,
    None => false,
  }
}

/// virtual time in nanoseconds
pub fn now() -> u64 {
  match current() {
    Some(ctx) => lock_state(&ctx.exec).clock,
    None => 0,
  }
}

pub fn yield_point() {
  let _ = sched_point(Wait::Run);
}

/// `thread::park` / `park_timeout` of the calling thread
pub fn park(timeout_ns: Option<u64>) {
  if let Some(ctx) = current() {
    let dl = {
      let mut st = lock_state(&ctx.exec);
      // "park may also return spuriously": under schedules with spurious wake-ups some
      // parks return at once, token or not
      let spurious = st.sched.spurious && splitmix(&mut st.sched.rng) % 100 < 15;
      if spurious {
        None
      } else if st.threads[ctx.tid].park_token {
        st.threads[ctx.tid].park_token = false;
        None
      } else {
        Some(timeout_ns.map(|ns| st.clock + ns))
      }
    };
    match dl {
      None => yield_point(),
      Some(dl) => {
        let _ = sched_point(Wait::Park(dl));
        lock_state(&ctx.exec).threads[ctx.tid].park_token = false;
      }
    }
  }
}

/// `Thread::unpark` of thread `tid` of the running execution
pub fn unpark(tid: usize) {
  if let Some(ctx) = current() {
    {
      let mut st = lock_state(&ctx.exec);
      if tid < st.threads.len() {
        st.threads[tid].park_token = true;
      }
    }
    yield_point();
  }
}

/// a number that identifies the running execution (0 outside)
pub fn exec_serial() -> u64 {
  match current() {
    Some(ctx) => ctx.exec.serial,
    None => 0,
  }
}

/// an explicit yield: by default the turn goes to the next enabled thread
pub fn yield_fair() {
  if let Some(ctx) = current() {
    lock_state(&ctx.exec).yielding = true;
    let _ = sched_point(Wait::Run);
  }
}

/// park until no other thread can run (the clock does not move)
pub fn settle() {
  let _ = sched_point(Wait::Idle { time: false });
}

/// park until no other thread can run and nobody sleeps any more
pub fn quiesce() {
  let _ = sched_point(Wait::Idle { time: true });
}

/// sleep on the virtual clock
pub fn sleep_ns(ns: u64) {
  if let Some(ctx) = current() {
    let until = lock_state(&ctx.exec).clock + ns;
    let _ = sched_point(Wait::Sleep(until));
  }
}

/// burn `n` units of fuel; when the budget of the execution is exhausted the execution
/// ends with `Kind::FuelExhausted`
pub fn burn(n: i64) {
  if let Some(ctx) = current() {
    let mut st = lock_state(&ctx.exec);
    if st.aborted {
      drop(st);
      if std::thread::panicking() {
        return;
      }
      unwind_abort();
    }
    st.fuel -= n;
    if st.fuel < 0 {
      let exec = ctx.exec.clone();
      st.finish(&exec, Kind::FuelExhausted);
      drop(st);
      if std::thread::panicking() {
        return;
      }
      unwind_abort();
    }
  }
}

/// number of library-spawned threads (facade `thread::spawn`) that have not finished
pub fn lib_threads_alive() -> usize {
  match current() {
    Some(ctx) => {
      let st = lock_state(&ctx.exec);
      st.threads.iter().filter(|t| t.lib && !t.finished).count()
    }
    None => 0,
  }
}

pub fn lib_threads_total() -> usize {
  match current() {
    Some(ctx) => {
      let st = lock_state(&ctx.exec);
      st.threads.iter().filter(|t| t.lib).count()
    }
    None => 0,
  }
}

pub fn steps() -> u64 {
  match current() {
    Some(ctx) => lock_state(&ctx.exec).steps,
    None => 0,
  }
}

pub fn choice_points() -> u32 {
  match current() {
    Some(ctx) => lock_state(&ctx.exec).choice_points,
    None => 0,
  }
}

pub fn switches() -> u32 {
  match current() {
    Some(ctx) => lock_state(&ctx.exec).switches,
    None => 0,
  }
}

pub struct HarnessHandle {
  tid: usize,
}

impl HarnessHandle {
  pub fn join(self) {
    if self.tid != usize::MAX {
      let _ = sched_point(Wait::Join(self.tid));
    }
  }
  pub fn tid(&self) -> usize {
    self.tid
  }
}

/// start a harness thread (not counted as a library thread)
pub fn spawn_named<F>(name: &str, f: F) -> HarnessHandle
where
  F: FnOnce() + Send + 'static,
{
  let ctx = current().expect("spawn_named outside an execution");
  let tid = spawn_in(&ctx, Some(name.to_string()), false, Box::new(f));
  HarnessHandle { tid }
}
