//! std look-alikes. Outside an execution they delegate to std and behave exactly like
//! it; inside, every blocking operation is a scheduling point of the controlled runtime.

use crate::rt::{self, Ctx, Mode, Wait};
use std::ops::{Deref, DerefMut};
use std::sync::{LockResult, TryLockError};
use std::time::Duration;

fn free_try<G>(mut f: impl FnMut() -> Option<G>) -> G {
  // the execution is over and this thread is unwinding: other unwinding threads hold
  // real locks only briefly
  for i in 0..2000u32 {
    if let Some(g) = f() {
      return g;
    }
    std::thread::sleep(Duration::from_micros(if i < 100 { 10 } else { 200 }));
  }
  match rt::current() {
    Some(ctx) => rt::park_forever(&ctx),
    None => loop {
      std::thread::park();
    },
  }
}

// ---------------------------------------------------------------------------------------
// RwLock

#[derive(Default)]
pub struct RwLock<T: ?Sized> {
  inner: std::sync::RwLock<T>,
}

pub struct RwLockReadGuard<'a, T: ?Sized + 'a> {
  inner: Option<std::sync::RwLockReadGuard<'a, T>>,
  rel: Option<(Ctx, usize)>,
}

pub struct RwLockWriteGuard<'a, T: ?Sized + 'a> {
  inner: Option<std::sync::RwLockWriteGuard<'a, T>>,
  rel: Option<(Ctx, usize)>,
}

impl<T> RwLock<T> {
  pub const fn new(t: T) -> RwLock<T> {
    RwLock { inner: std::sync::RwLock::new(t) }
  }
  pub fn into_inner(self) -> LockResult<T> {
    Ok(match self.inner.into_inner() {
      Ok(x) => x,
      Err(p) => p.into_inner(),
    })
  }
}

impl<T: ?Sized> RwLock<T> {
  fn addr(&self) -> usize {
    &self.inner as *const _ as *const u8 as usize
  }

  fn try_read_real(&self) -> Option<std::sync::RwLockReadGuard<'_, T>> {
    match self.inner.try_read() {
      Ok(g) => Some(g),
      Err(TryLockError::Poisoned(p)) => Some(p.into_inner()),
      Err(TryLockError::WouldBlock) => None,
    }
  }

  fn try_write_real(&self) -> Option<std::sync::RwLockWriteGuard<'_, T>> {
    match self.inner.try_write() {
      Ok(g) => Some(g),
      Err(TryLockError::Poisoned(p)) => Some(p.into_inner()),
      Err(TryLockError::WouldBlock) => None,
    }
  }

  pub fn read(&self) -> LockResult<RwLockReadGuard<'_, T>> {
    let a = self.addr();
    match rt::sched_point(Wait::Read(a)) {
      Mode::Model(ctx) => {
        let g = self.try_read_real().expect("arx_rt: model granted a read the real lock refuses");
        let guard = RwLockReadGuard { inner: Some(g), rel: Some((ctx.clone(), a)) };
        rt::post_acquire_point(&ctx);
        Ok(guard)
      }
      Mode::Free => {
        let g = match self.inner.read() {
          Ok(g) => g,
          Err(p) => p.into_inner(),
        };
        Ok(RwLockReadGuard { inner: Some(g), rel: None })
      }
      Mode::FreeTry => {
        let g = free_try(|| self.try_read_real());
        Ok(RwLockReadGuard { inner: Some(g), rel: None })
      }
    }
  }

  pub fn write(&self) -> LockResult<RwLockWriteGuard<'_, T>> {
    let a = self.addr();
    match rt::sched_point(Wait::Write(a)) {
      Mode::Model(ctx) => {
        let g =
          self.try_write_real().expect("arx_rt: model granted a write the real lock refuses");
        let guard = RwLockWriteGuard { inner: Some(g), rel: Some((ctx.clone(), a)) };
        rt::post_acquire_point(&ctx);
        Ok(guard)
      }
      Mode::Free => {
        let g = match self.inner.write() {
          Ok(g) => g,
          Err(p) => p.into_inner(),
        };
        Ok(RwLockWriteGuard { inner: Some(g), rel: None })
      }
      Mode::FreeTry => {
        let g = free_try(|| self.try_write_real());
        Ok(RwLockWriteGuard { inner: Some(g), rel: None })
      }
    }
  }

  pub fn try_read(&self) -> std::sync::TryLockResult<RwLockReadGuard<'_, T>> {
    let a = self.addr();
    match rt::try_acquire(Wait::Read(a)) {
      rt::TryMode::Granted(ctx) => {
        let g = self.try_read_real().expect("arx_rt: model granted a try_read the real lock refuses");
        Ok(RwLockReadGuard { inner: Some(g), rel: Some((ctx, a)) })
      }
      rt::TryMode::Refused => Err(TryLockError::WouldBlock),
      rt::TryMode::Free => match self.try_read_real() {
        Some(g) => Ok(RwLockReadGuard { inner: Some(g), rel: None }),
        None => Err(TryLockError::WouldBlock),
      },
    }
  }

  pub fn try_write(&self) -> std::sync::TryLockResult<RwLockWriteGuard<'_, T>> {
    let a = self.addr();
    match rt::try_acquire(Wait::Write(a)) {
      rt::TryMode::Granted(ctx) => {
        let g = self.try_write_real().expect("arx_rt: model granted a try_write the real lock refuses");
        Ok(RwLockWriteGuard { inner: Some(g), rel: Some((ctx, a)) })
      }
      rt::TryMode::Refused => Err(TryLockError::WouldBlock),
      rt::TryMode::Free => match self.try_write_real() {
        Some(g) => Ok(RwLockWriteGuard { inner: Some(g), rel: None }),
        None => Err(TryLockError::WouldBlock),
      },
    }
  }

  pub fn get_mut(&mut self) -> LockResult<&mut T> {
    Ok(match self.inner.get_mut() {
      Ok(x) => x,
      Err(p) => p.into_inner(),
    })
  }

  pub fn is_poisoned(&self) -> bool {
    false
  }
}

impl<T: ?Sized + std::fmt::Debug> std::fmt::Debug for RwLock<T> {
  fn fmt(&self, f: &mut std::fmt::Formatter<'_>) -> std::fmt::Result {
    f.write_str("RwLock { .. }")
  }
}

impl<T> From<T> for RwLock<T> {
  fn from(t: T) -> Self {
    RwLock::new(t)
  }
}

impl<'a, T: ?Sized> Deref for RwLockReadGuard<'a, T> {
  type Target = T;
  fn deref(&self) -> &T {
    self.inner.as_ref().unwrap()
  }
}

impl<'a, T: ?Sized> Drop for RwLockReadGuard<'a, T> {
  fn drop(&mut self) {
    if let Some((ctx, _)) = &self.rel {
      if self.inner.is_some() {
        rt::pre_release_point(ctx);
      }
    }
    self.inner = None;
    if let Some((ctx, a)) = self.rel.take() {
      rt::release(&ctx, a, false);
    }
  }
}

impl<'a, T: ?Sized> Deref for RwLockWriteGuard<'a, T> {
  type Target = T;
  fn deref(&self) -> &T {
    self.inner.as_ref().unwrap()
  }
}

impl<'a, T: ?Sized> DerefMut for RwLockWriteGuard<'a, T> {
  fn deref_mut(&mut self) -> &mut T {
    self.inner.as_mut().unwrap()
  }
}

impl<'a, T: ?Sized> Drop for RwLockWriteGuard<'a, T> {
  fn drop(&mut self) {
    if let Some((ctx, _)) = &self.rel {
      if self.inner.is_some() {
        rt::pre_release_point(ctx);
      }
    }
    self.inner = None;
    if let Some((ctx, a)) = self.rel.take() {
      rt::release(&ctx, a, true);
    }
  }
}

impl<'a, T: ?Sized + std::fmt::Debug> std::fmt::Debug for RwLockReadGuard<'a, T> {
  fn fmt(&self, f: &mut std::fmt::Formatter<'_>) -> std::fmt::Result {
    (**self).fmt(f)
  }
}

impl<'a, T: ?Sized + std::fmt::Debug> std::fmt::Debug for RwLockWriteGuard<'a, T> {
  fn fmt(&self, f: &mut std::fmt::Formatter<'_>) -> std::fmt::Result {
    (**self).fmt(f)
  }
}

// ---------------------------------------------------------------------------------------
// Mutex + Condvar

#[derive(Default)]
pub struct Mutex<T: ?Sized> {
  inner: std::sync::Mutex<T>,
}

pub struct MutexGuard<'a, T: ?Sized + 'a> {
  mutex: &'a Mutex<T>,
  inner: Option<std::sync::MutexGuard<'a, T>>,
  rel: Option<(Ctx, usize)>,
}

impl<T> Mutex<T> {
  pub const fn new(t: T) -> Mutex<T> {
    Mutex { inner: std::sync::Mutex::new(t) }
  }
  pub fn into_inner(self) -> LockResult<T> {
    Ok(match self.inner.into_inner() {
      Ok(x) => x,
      Err(p) => p.into_inner(),
    })
  }
}

impl<T: ?Sized> Mutex<T> {
  fn addr(&self) -> usize {
    &self.inner as *const _ as *const u8 as usize
  }

  fn try_lock_real(&self) -> Option<std::sync::MutexGuard<'_, T>> {
    match self.inner.try_lock() {
      Ok(g) => Some(g),
      Err(TryLockError::Poisoned(p)) => Some(p.into_inner()),
      Err(TryLockError::WouldBlock) => None,
    }
  }

  pub fn lock(&self) -> LockResult<MutexGuard<'_, T>> {
    let a = self.addr();
    match rt::sched_point(Wait::Lock(a)) {
      Mode::Model(ctx) => {
        let g = self.try_lock_real().expect("arx_rt: model granted a mutex the real one refuses");
        let guard = MutexGuard { mutex: self, inner: Some(g), rel: Some((ctx.clone(), a)) };
        rt::post_acquire_point(&ctx);
        Ok(guard)
      }
      Mode::Free => {
        let g = match self.inner.lock() {
          Ok(g) => g,
          Err(p) => p.into_inner(),
        };
        Ok(MutexGuard { mutex: self, inner: Some(g), rel: None })
      }
      Mode::FreeTry => {
        let g = free_try(|| self.try_lock_real());
        Ok(MutexGuard { mutex: self, inner: Some(g), rel: None })
      }
    }
  }

  pub fn try_lock(&self) -> std::sync::TryLockResult<MutexGuard<'_, T>> {
    let a = self.addr();
    match rt::try_acquire(Wait::Lock(a)) {
      rt::TryMode::Granted(ctx) => {
        let g = self.try_lock_real().expect("arx_rt: model granted a try_lock the real mutex refuses");
        Ok(MutexGuard { mutex: self, inner: Some(g), rel: Some((ctx, a)) })
      }
      rt::TryMode::Refused => Err(TryLockError::WouldBlock),
      rt::TryMode::Free => match self.try_lock_real() {
        Some(g) => Ok(MutexGuard { mutex: self, inner: Some(g), rel: None }),
        None => Err(TryLockError::WouldBlock),
      },
    }
  }

  pub fn get_mut(&mut self) -> LockResult<&mut T> {
    Ok(match self.inner.get_mut() {
      Ok(x) => x,
      Err(p) => p.into_inner(),
    })
  }

  pub fn is_poisoned(&self) -> bool {
    false
  }
}

impl<T: ?Sized + std::fmt::Debug> std::fmt::Debug for Mutex<T> {
  fn fmt(&self, f: &mut std::fmt::Formatter<'_>) -> std::fmt::Result {
    f.write_str("Mutex { .. }")
  }
}

impl<'a, T: ?Sized> Deref for MutexGuard<'a, T> {
  type Target = T;
  fn deref(&self) -> &T {
    self.inner.as_ref().unwrap()
  }
}

impl<'a, T: ?Sized> DerefMut for MutexGuard<'a, T> {
  fn deref_mut(&mut self) -> &mut T {
    self.inner.as_mut().unwrap()
  }
}

impl<'a, T: ?Sized> Drop for MutexGuard<'a, T> {
  fn drop(&mut self) {
    if let Some((ctx, _)) = &self.rel {
      if self.inner.is_some() {
        rt::pre_release_point(ctx);
      }
    }
    self.inner = None;
    if let Some((ctx, a)) = self.rel.take() {
      rt::release(&ctx, a, true);
    }
  }
}

#[derive(Clone, Copy, Debug, PartialEq, Eq)]
pub struct WaitTimeoutResult(bool);

impl WaitTimeoutResult {
  pub fn timed_out(&self) -> bool {
    self.0
  }
}

#[derive(Default)]
pub struct Condvar {
  inner: std::sync::Condvar,
}

impl Condvar {
  pub const fn new() -> Condvar {
    Condvar { inner: std::sync::Condvar::new() }
  }

  fn addr(&self) -> usize {
    &self.inner as *const _ as *const u8 as usize
  }

  pub fn wait<'a, T>(&self, mut guard: MutexGuard<'a, T>) -> LockResult<MutexGuard<'a, T>> {
    let mutex = guard.mutex;
    match guard.rel.take() {
      Some((ctx, m)) => {
        // a thread can be preempted between testing its predicate and starting to wait
        // (still holding the mutex): a notify sent without the mutex is lost there
        guard.rel = Some((ctx.clone(), m));
        rt::post_acquire_point(&ctx);
        guard.rel = None;
        // release the real mutex, then (atomically in the model) release + wait
        guard.inner = None;
        drop(guard);
        rt::cond_wait(&ctx, self.addr(), m);
        let g = mutex
          .try_lock_real()
          .expect("arx_rt: model granted a mutex (after wait) the real one refuses");
        Ok(MutexGuard { mutex, inner: Some(g), rel: Some((ctx, m)) })
      }
      None => {
        let g = guard.inner.take().unwrap();
        drop(guard);
        let g = match self.inner.wait(g) {
          Ok(g) => g,
          Err(p) => p.into_inner(),
        };
        Ok(MutexGuard { mutex, inner: Some(g), rel: None })
      }
    }
  }

  pub fn wait_timeout<'a, T>(
    &self,
    mut guard: MutexGuard<'a, T>,
    dur: Duration,
  ) -> LockResult<(MutexGuard<'a, T>, WaitTimeoutResult)> {
    let mutex = guard.mutex;
    match guard.rel.take() {
      Some((ctx, m)) => {
        guard.rel = Some((ctx.clone(), m));
        rt::post_acquire_point(&ctx);
        guard.rel = None;
        guard.inner = None;
        drop(guard);
        let timed_out = rt::cond_wait_timed(&ctx, self.addr(), m, dur.as_nanos().min(u64::MAX as u128) as u64);
        let g = mutex
          .try_lock_real()
          .expect("arx_rt: model granted a mutex (after timed wait) the real one refuses");
        Ok((MutexGuard { mutex, inner: Some(g), rel: Some((ctx, m)) }, WaitTimeoutResult(timed_out)))
      }
      None => {
        let g = guard.inner.take().unwrap();
        drop(guard);
        let (g, r) = match self.inner.wait_timeout(g, dur) {
          Ok(x) => x,
          Err(p) => p.into_inner(),
        };
        Ok((MutexGuard { mutex, inner: Some(g), rel: None }, WaitTimeoutResult(r.timed_out())))
      }
    }
  }

  pub fn wait_timeout_while<'a, T, F>(
    &self,
    mut guard: MutexGuard<'a, T>,
    dur: Duration,
    mut condition: F,
  ) -> LockResult<(MutexGuard<'a, T>, WaitTimeoutResult)>
  where
    F: FnMut(&mut T) -> bool,
  {
    let start = Instant::now();
    loop {
      if !condition(&mut *guard) {
        return Ok((guard, WaitTimeoutResult(false)));
      }
      let elapsed = start.elapsed();
      if elapsed >= dur {
        return Ok((guard, WaitTimeoutResult(true)));
      }
      let (g, _) = self.wait_timeout(guard, dur - elapsed)?;
      guard = g;
    }
  }

  pub fn wait_while<'a, T, F>(
    &self,
    mut guard: MutexGuard<'a, T>,
    mut condition: F,
  ) -> LockResult<MutexGuard<'a, T>>
  where
    F: FnMut(&mut T) -> bool,
  {
    while condition(&mut *guard) {
      guard = self.wait(guard)?;
    }
    Ok(guard)
  }

  pub fn notify_one(&self) {
    match rt::current() {
      Some(ctx) => {
        rt::post_acquire_point(&ctx);
        rt::cond_notify(&ctx, self.addr(), false)
      }
      None => self.inner.notify_one(),
    }
  }

  pub fn notify_all(&self) {
    match rt::current() {
      Some(ctx) => {
        rt::post_acquire_point(&ctx);
        rt::cond_notify(&ctx, self.addr(), true)
      }
      None => self.inner.notify_all(),
    }
  }
}

impl std::fmt::Debug for Condvar {
  fn fmt(&self, f: &mut std::fmt::Formatter<'_>) -> std::fmt::Result {
    f.write_str("Condvar { .. }")
  }
}

// ---------------------------------------------------------------------------------------
// thread

pub enum JoinHandle<T> {
  Std(std::thread::JoinHandle<T>),
  Model { tid: usize, slot: std::sync::Arc<std::sync::Mutex<Option<T>>> },
}

impl<T> JoinHandle<T> {
  pub fn join(self) -> std::thread::Result<T> {
    match self {
      JoinHandle::Std(h) => h.join(),
      JoinHandle::Model { tid, slot } => {
        if tid != usize::MAX {
          let _ = rt::sched_point(Wait::Join(tid));
        }
        let v = match slot.lock() {
          Ok(mut g) => g.take(),
          Err(p) => p.into_inner().take(),
        };
        match v {
          Some(v) => Ok(v),
          None => Err(Box::new("thread did not finish normally")),
        }
      }
    }
  }

  /// (returns the handle by value, std returns a reference: method calls on it are the same)
  pub fn thread(&self) -> Thread {
    match self {
      JoinHandle::Std(h) => {
        let t = h.thread().clone();
        let n = {
          use std::hash::{Hash, Hasher};
          let mut hs = std::collections::hash_map::DefaultHasher::new();
          t.id().hash(&mut hs);
          hs.finish()
        };
        Thread { id: ThreadId(0, n), name: t.name().map(|s| s.to_string()), real: Some(t) }
      }
      JoinHandle::Model { tid, .. } => {
        Thread { id: ThreadId(rt::exec_serial(), *tid as u64), name: None, real: None }
      }
    }
  }

  pub fn is_finished(&self) -> bool {
    match self {
      JoinHandle::Std(h) => h.is_finished(),
      JoinHandle::Model { slot, .. } => match slot.lock() {
        Ok(g) => g.is_some(),
        Err(_) => true,
      },
    }
  }
}

/// `thread::Builder` look-alike: name and stack size are accepted and ignored inside an
/// execution (threads come from the runtime's pool)
#[derive(Debug, Default)]
pub struct Builder {
  name: Option<String>,
  stack: Option<usize>,
}

impl Builder {
  pub fn new() -> Builder {
    Builder::default()
  }
  pub fn name(mut self, name: String) -> Builder {
    self.name = Some(name);
    self
  }
  pub fn stack_size(mut self, size: usize) -> Builder {
    self.stack = Some(size);
    self
  }
  pub fn spawn<F, T>(self, f: F) -> std::io::Result<JoinHandle<T>>
  where
    F: FnOnce() -> T + Send + 'static,
    T: Send + 'static,
  {
    if rt::in_exec() {
      Ok(spawn(f))
    } else {
      let mut b = std::thread::Builder::new();
      if let Some(n) = self.name {
        b = b.name(n);
      }
      if let Some(s) = self.stack {
        b = b.stack_size(s);
      }
      b.spawn(f).map(JoinHandle::Std)
    }
  }
}

pub fn spawn<F, T>(f: F) -> JoinHandle<T>
where
  F: FnOnce() -> T + Send + 'static,
  T: Send + 'static,
{
  match rt::current() {
    Some(ctx) => {
      let slot = std::sync::Arc::new(std::sync::Mutex::new(None));
      let slot2 = slot.clone();
      let tid = rt::spawn_in(
        &ctx,
        None,
        true,
        Box::new(move || {
          let v = f();
          if let Ok(mut g) = slot2.lock() {
            *g = Some(v);
          }
        }),
      );
      JoinHandle::Model { tid, slot }
    }
    None => JoinHandle::Std(std::thread::spawn(f)),
  }
}

/// `thread::current()`: identities are per logical thread of the execution (the OS threads
/// behind them are pooled and reused, their std ThreadIds would repeat)
#[derive(Clone, Copy, Debug, PartialEq, Eq, Hash, PartialOrd, Ord)]
pub struct ThreadId(u64, u64);

#[derive(Clone, Debug)]
pub struct Thread {
  id: ThreadId,
  name: Option<String>,
  real: Option<std::thread::Thread>,
}

impl Thread {
  pub fn id(&self) -> ThreadId {
    self.id
  }
  pub fn name(&self) -> Option<&str> {
    self.name.as_deref()
  }
  pub fn unpark(&self) {
    match &self.real {
      Some(t) => t.unpark(),
      None => {
        if rt::exec_serial() == self.id.0 {
          rt::unpark(self.id.1 as usize)
        }
      }
    }
  }
}

pub fn current() -> Thread {
  match rt::current() {
    Some(ctx) => Thread {
      id: ThreadId(rt::exec_serial(), ctx.tid as u64),
      name: Some(rt::thread_name()),
      real: None,
    },
    None => {
      let t = std::thread::current();
      // outside an execution: a stable number derived from the std id
      let n = {
        use std::hash::{Hash, Hasher};
        let mut h = std::collections::hash_map::DefaultHasher::new();
        t.id().hash(&mut h);
        h.finish()
      };
      Thread { id: ThreadId(0, n), name: t.name().map(|s| s.to_string()), real: Some(t) }
    }
  }
}

pub fn park() {
  match rt::current() {
    Some(_) => rt::park(None),
    None => std::thread::park(),
  }
}

pub fn park_timeout(dur: Duration) {
  match rt::current() {
    Some(_) => rt::park(Some(dur.as_nanos().min(u64::MAX as u128) as u64)),
    None => std::thread::park_timeout(dur),
  }
}

thread_local! {
  static SIMULATED_PANICKING: std::cell::Cell<bool> = const { std::cell::Cell::new(false) };
}

/// `thread::panicking()`: also true while the harness simulates "this code runs because a
/// panic is unwinding through its owner" (see `with_simulated_unwinding`)
pub fn panicking() -> bool {
  std::thread::panicking() || SIMULATED_PANICKING.with(|c| c.get())
}

/// Run `f` (typically: drop a guard) the way destructors run during unwinding, as far as the
/// code under test can tell: `thread::panicking()` answers true meanwhile. The harness never
/// unwinds through user frames for real - the runtime itself ends executions by unwinding.
pub fn with_simulated_unwinding<R>(f: impl FnOnce() -> R) -> R {
  SIMULATED_PANICKING.with(|c| c.set(true));
  let r = f();
  SIMULATED_PANICKING.with(|c| c.set(false));
  r
}

pub fn sleep(dur: Duration) {
  match rt::current() {
    Some(_) => rt::sleep_ns(dur.as_nanos().min(u64::MAX as u128) as u64),
    None => std::thread::sleep(dur),
  }
}

pub fn yield_now() {
  match rt::current() {
    Some(_) => rt::yield_fair(),
    None => std::thread::yield_now(),
  }
}

// ---------------------------------------------------------------------------------------
// time

#[derive(Clone, Copy, Debug)]
pub struct Instant {
  real: std::time::Instant,
  virt: Option<u64>,
}

impl Instant {
  pub fn now() -> Instant {
    let virt = if rt::in_exec() { Some(rt::now()) } else { None };
    Instant { real: std::time::Instant::now(), virt }
  }

  pub fn elapsed(&self) -> Duration {
    Instant::now().duration_since(*self)
  }

  pub fn duration_since(&self, earlier: Instant) -> Duration {
    match (self.virt, earlier.virt) {
      (Some(a), Some(b)) => Duration::from_nanos(a.saturating_sub(b)),
      _ => self.real.saturating_duration_since(earlier.real),
    }
  }

  pub fn saturating_duration_since(&self, earlier: Instant) -> Duration {
    self.duration_since(earlier)
  }

  pub fn checked_duration_since(&self, earlier: Instant) -> Option<Duration> {
    Some(self.duration_since(earlier))
  }
}

impl Instant {
  fn key(&self) -> Result<u64, std::time::Instant> {
    match self.virt {
      Some(v) => Ok(v),
      None => Err(self.real),
    }
  }
  pub fn checked_add(&self, d: Duration) -> Option<Instant> {
    Some(*self + d)
  }
  pub fn checked_sub(&self, d: Duration) -> Option<Instant> {
    Some(*self - d)
  }
}

// instants taken inside an execution are ordered by the virtual clock
impl PartialEq for Instant {
  fn eq(&self, o: &Instant) -> bool {
    self.cmp(o) == std::cmp::Ordering::Equal
  }
}
impl Eq for Instant {}
impl PartialOrd for Instant {
  fn partial_cmp(&self, o: &Instant) -> Option<std::cmp::Ordering> {
    Some(self.cmp(o))
  }
}
impl Ord for Instant {
  fn cmp(&self, o: &Instant) -> std::cmp::Ordering {
    match (self.key(), o.key()) {
      (Ok(a), Ok(b)) => a.cmp(&b),
      _ => self.real.cmp(&o.real),
    }
  }
}
impl std::hash::Hash for Instant {
  fn hash<H: std::hash::Hasher>(&self, h: &mut H) {
    match self.key() {
      Ok(v) => v.hash(h),
      Err(r) => r.hash(h),
    }
  }
}
impl std::ops::AddAssign<Duration> for Instant {
  fn add_assign(&mut self, d: Duration) {
    *self = *self + d;
  }
}
impl std::ops::SubAssign<Duration> for Instant {
  fn sub_assign(&mut self, d: Duration) {
    *self = *self - d;
  }
}

impl std::ops::Sub<Instant> for Instant {
  type Output = Duration;
  fn sub(self, other: Instant) -> Duration {
    self.duration_since(other)
  }
}

impl std::ops::Add<Duration> for Instant {
  type Output = Instant;
  fn add(self, d: Duration) -> Instant {
    Instant { real: self.real + d, virt: self.virt.map(|v| v + d.as_nanos() as u64) }
  }
}

impl std::ops::Sub<Duration> for Instant {
  type Output = Instant;
  fn sub(self, d: Duration) -> Instant {
    Instant {
      real: self.real.checked_sub(d).unwrap_or(self.real),
      virt: self.virt.map(|v| v.saturating_sub(d.as_nanos() as u64)),
    }
  }
}

// ---------------------------------------------------------------------------------------
// collections: HashMap with a deterministic, per-execution seeded hasher

#[derive(Clone, Copy, Debug)]
pub struct DetState {
  seed: u64,
}

impl DetState {
  pub fn new() -> DetState {
    let seed = match rt::current() {
      Some(ctx) => ctx.exec.hash_seed,
      None => 0,
    };
    DetState { seed }
  }
}

impl Default for DetState {
  fn default() -> Self {
    DetState::new()
  }
}

impl std::hash::BuildHasher for DetState {
  type Hasher = std::collections::hash_map::DefaultHasher;
  fn build_hasher(&self) -> Self::Hasher {
    use std::hash::Hasher;
    let mut h = std::collections::hash_map::DefaultHasher::new();
    h.write_u64(self.seed);
    h
  }
}

pub struct HashMap<K, V> {
  inner: std::collections::HashMap<K, V, DetState>,
}

impl<K, V> HashMap<K, V> {
  pub fn new() -> HashMap<K, V> {
    HashMap { inner: std::collections::HashMap::with_hasher(DetState::new()) }
  }
  pub fn with_capacity(n: usize) -> HashMap<K, V> {
    HashMap { inner: std::collections::HashMap::with_capacity_and_hasher(n, DetState::new()) }
  }
}

// (by-value methods: not reachable through Deref)
impl<K, V> HashMap<K, V> {
  pub fn into_values(self) -> std::collections::hash_map::IntoValues<K, V> {
    self.inner.into_values()
  }
  pub fn into_keys(self) -> std::collections::hash_map::IntoKeys<K, V> {
    self.inner.into_keys()
  }
}

impl<K, V> Default for HashMap<K, V> {
  fn default() -> Self {
    HashMap::new()
  }
}

impl<K: Eq + std::hash::Hash, V: PartialEq> PartialEq for HashMap<K, V> {
  fn eq(&self, o: &Self) -> bool {
    self.inner == o.inner
  }
}

impl<K: Eq + std::hash::Hash, V> Extend<(K, V)> for HashMap<K, V> {
  fn extend<I: IntoIterator<Item = (K, V)>>(&mut self, it: I) {
    self.inner.extend(it)
  }
}

/// HashSet with the same deterministic, per-execution seeded hasher
pub struct HashSet<T> {
  inner: std::collections::HashSet<T, DetState>,
}

impl<T> HashSet<T> {
  pub fn new() -> HashSet<T> {
    HashSet { inner: std::collections::HashSet::with_hasher(DetState::new()) }
  }
  pub fn with_capacity(n: usize) -> HashSet<T> {
    HashSet { inner: std::collections::HashSet::with_capacity_and_hasher(n, DetState::new()) }
  }
}

impl<T> Default for HashSet<T> {
  fn default() -> Self {
    HashSet::new()
  }
}

impl<T: Clone> Clone for HashSet<T> {
  fn clone(&self) -> Self {
    HashSet { inner: self.inner.clone() }
  }
}

impl<T: std::fmt::Debug> std::fmt::Debug for HashSet<T> {
  fn fmt(&self, f: &mut std::fmt::Formatter<'_>) -> std::fmt::Result {
    self.inner.fmt(f)
  }
}

impl<T> Deref for HashSet<T> {
  type Target = std::collections::HashSet<T, DetState>;
  fn deref(&self) -> &Self::Target {
    &self.inner
  }
}

impl<T> DerefMut for HashSet<T> {
  fn deref_mut(&mut self) -> &mut Self::Target {
    &mut self.inner
  }
}

impl<T: Eq + std::hash::Hash> FromIterator<T> for HashSet<T> {
  fn from_iter<I: IntoIterator<Item = T>>(it: I) -> Self {
    let mut m = HashSet::new();
    for x in it {
      m.inner.insert(x);
    }
    m
  }
}

impl<T: Eq + std::hash::Hash> Extend<T> for HashSet<T> {
  fn extend<I: IntoIterator<Item = T>>(&mut self, it: I) {
    self.inner.extend(it)
  }
}

impl<T: Eq + std::hash::Hash> PartialEq for HashSet<T> {
  fn eq(&self, o: &Self) -> bool {
    self.inner == o.inner
  }
}

impl<T> IntoIterator for HashSet<T> {
  type Item = T;
  type IntoIter = std::collections::hash_set::IntoIter<T>;
  fn into_iter(self) -> Self::IntoIter {
    self.inner.into_iter()
  }
}

impl<'a, T> IntoIterator for &'a HashSet<T> {
  type Item = &'a T;
  type IntoIter = std::collections::hash_set::Iter<'a, T>;
  fn into_iter(self) -> Self::IntoIter {
    self.inner.iter()
  }
}

impl<K: Clone, V: Clone> Clone for HashMap<K, V> {
  fn clone(&self) -> Self {
    HashMap { inner: self.inner.clone() }
  }
}

impl<K: std::fmt::Debug, V: std::fmt::Debug> std::fmt::Debug for HashMap<K, V> {
  fn fmt(&self, f: &mut std::fmt::Formatter<'_>) -> std::fmt::Result {
    self.inner.fmt(f)
  }
}

impl<K, V> Deref for HashMap<K, V> {
  type Target = std::collections::HashMap<K, V, DetState>;
  fn deref(&self) -> &Self::Target {
    &self.inner
  }
}

impl<K, V> DerefMut for HashMap<K, V> {
  fn deref_mut(&mut self) -> &mut Self::Target {
    &mut self.inner
  }
}

impl<K: Eq + std::hash::Hash, V> FromIterator<(K, V)> for HashMap<K, V> {
  fn from_iter<I: IntoIterator<Item = (K, V)>>(it: I) -> Self {
    let mut m = HashMap::new();
    for (k, v) in it {
      m.inner.insert(k, v);
    }
    m
  }
}

impl<K, V> IntoIterator for HashMap<K, V> {
  type Item = (K, V);
  type IntoIter = std::collections::hash_map::IntoIter<K, V>;
  fn into_iter(self) -> Self::IntoIter {
    self.inner.into_iter()
  }
}

impl<'a, K, V> IntoIterator for &'a HashMap<K, V> {
  type Item = (&'a K, &'a V);
  type IntoIter = std::collections::hash_map::Iter<'a, K, V>;
  fn into_iter(self) -> Self::IntoIter {
    self.inner.iter()
  }
}

impl<'a, K, V> IntoIterator for &'a mut HashMap<K, V> {
  type Item = (&'a K, &'a mut V);
  type IntoIter = std::collections::hash_map::IterMut<'a, K, V>;
  fn into_iter(self) -> Self::IntoIter {
    self.inner.iter_mut()
  }
}

// ---------------------------------------------------------------------------------------
// Once / OnceLock / Barrier on top of the controlled Mutex / Condvar: the std versions block
// the OS thread for real, which the runtime (one thread runs at a time) cannot see

pub struct Once {
  /// 0 = new, 1 = running, 2 = done
  state: Mutex<u8>,
  cv: Condvar,
}

impl Once {
  pub const fn new() -> Once {
    Once { state: Mutex::new(0), cv: Condvar::new() }
  }
  pub fn call_once<F: FnOnce()>(&self, f: F) {
    {
      let mut st = self.state.lock().unwrap();
      loop {
        match *st {
          2 => return,
          1 => st = self.cv.wait(st).unwrap(),
          _ => {
            *st = 1;
            break;
          }
        }
      }
    }
    f();
    *self.state.lock().unwrap() = 2;
    self.cv.notify_all();
  }
  pub fn is_completed(&self) -> bool {
    *self.state.lock().unwrap() == 2
  }
}

impl std::fmt::Debug for Once {
  fn fmt(&self, f: &mut std::fmt::Formatter<'_>) -> std::fmt::Result {
    f.write_str("Once { .. }")
  }
}

pub struct OnceLock<T> {
  once: Once,
  slot: std::sync::OnceLock<T>,
}

impl<T> OnceLock<T> {
  pub const fn new() -> OnceLock<T> {
    OnceLock { once: Once::new(), slot: std::sync::OnceLock::new() }
  }
  pub fn get(&self) -> Option<&T> {
    if crate::rt::current().is_some() {
      crate::rt::yield_point();
    }
    self.slot.get()
  }
  pub fn set(&self, value: T) -> Result<(), T> {
    let mut v = Some(value);
    self.once.call_once(|| {
      let _ = self.slot.set(v.take().unwrap());
    });
    match v {
      None => Ok(()),
      Some(x) => Err(x),
    }
  }
  pub fn get_or_init<F: FnOnce() -> T>(&self, f: F) -> &T {
    self.once.call_once(|| {
      let _ = self.slot.set(f());
    });
    self.slot.get().expect("OnceLock initialised")
  }
  pub fn into_inner(self) -> Option<T> {
    self.slot.into_inner()
  }
  pub fn take(&mut self) -> Option<T> {
    self.once = Once::new();
    self.slot.take()
  }
}

impl<T> Default for OnceLock<T> {
  fn default() -> Self {
    OnceLock::new()
  }
}

impl<T: std::fmt::Debug> std::fmt::Debug for OnceLock<T> {
  fn fmt(&self, f: &mut std::fmt::Formatter<'_>) -> std::fmt::Result {
    self.slot.fmt(f)
  }
}

pub struct Barrier {
  n: usize,
  /// (arrived, generation)
  st: Mutex<(usize, usize)>,
  cv: Condvar,
}

pub struct BarrierWaitResult(bool);

impl BarrierWaitResult {
  pub fn is_leader(&self) -> bool {
    self.0
  }
}

impl Barrier {
  pub const fn new(n: usize) -> Barrier {
    Barrier { n, st: Mutex::new((0, 0)), cv: Condvar::new() }
  }
  pub fn wait(&self) -> BarrierWaitResult {
    let mut st = self.st.lock().unwrap();
    let gen = st.1;
    st.0 += 1;
    if st.0 >= self.n {
      st.0 = 0;
      st.1 = st.1.wrapping_add(1);
      drop(st);
      self.cv.notify_all();
      return BarrierWaitResult(true);
    }
    while st.1 == gen {
      st = self.cv.wait(st).unwrap();
    }
    BarrierWaitResult(false)
  }
}

// ---------------------------------------------------------------------------------------
// atomics: real atomics (one thread runs at a time) with a scheduling point before every
// operation, so that code which is rewritten from locks to atomics keeps its preemption
// points

pub mod atomic {
  pub use std::sync::atomic::{compiler_fence, fence, Ordering};

  #[inline]
  fn pt() {
    if crate::rt::current().is_some() {
      crate::rt::yield_point();
    }
  }

  macro_rules! atomic_int {
    ($name:ident, $std:ty, $t:ty) => {
      #[derive(Default)]
      pub struct $name {
        inner: $std,
      }
      impl $name {
        pub const fn new(v: $t) -> Self {
          Self { inner: <$std>::new(v) }
        }
        pub fn into_inner(self) -> $t {
          self.inner.into_inner()
        }
        pub fn get_mut(&mut self) -> &mut $t {
          self.inner.get_mut()
        }
        pub fn load(&self, o: Ordering) -> $t {
          pt();
          self.inner.load(o)
        }
        pub fn store(&self, v: $t, o: Ordering) {
          pt();
          self.inner.store(v, o)
        }
        pub fn swap(&self, v: $t, o: Ordering) -> $t {
          pt();
          self.inner.swap(v, o)
        }
        pub fn compare_exchange(&self, c: $t, n: $t, s: Ordering, f: Ordering) -> Result<$t, $t> {
          pt();
          self.inner.compare_exchange(c, n, s, f)
        }
        pub fn compare_exchange_weak(&self, c: $t, n: $t, s: Ordering, f: Ordering) -> Result<$t, $t> {
          pt();
          // never fails spuriously: a retry loop must not depend on it either way
          self.inner.compare_exchange(c, n, s, f)
        }
        pub fn fetch_and(&self, v: $t, o: Ordering) -> $t {
          pt();
          self.inner.fetch_and(v, o)
        }
        pub fn fetch_or(&self, v: $t, o: Ordering) -> $t {
          pt();
          self.inner.fetch_or(v, o)
        }
        pub fn fetch_xor(&self, v: $t, o: Ordering) -> $t {
          pt();
          self.inner.fetch_xor(v, o)
        }
        pub fn fetch_nand(&self, v: $t, o: Ordering) -> $t {
          pt();
          self.inner.fetch_nand(v, o)
        }
        pub fn fetch_update<F>(&self, s: Ordering, f: Ordering, g: F) -> Result<$t, $t>
        where
          F: FnMut($t) -> Option<$t>,
        {
          pt();
          self.inner.fetch_update(s, f, g)
        }
      }
      impl From<$t> for $name {
        fn from(v: $t) -> Self {
          Self::new(v)
        }
      }
      impl std::fmt::Debug for $name {
        fn fmt(&self, f: &mut std::fmt::Formatter<'_>) -> std::fmt::Result {
          std::fmt::Debug::fmt(&self.inner, f)
        }
      }
    };
  }
  macro_rules! atomic_arith {
    ($name:ident, $t:ty) => {
      impl $name {
        pub fn fetch_add(&self, v: $t, o: Ordering) -> $t {
          pt();
          self.inner.fetch_add(v, o)
        }
        pub fn fetch_sub(&self, v: $t, o: Ordering) -> $t {
          pt();
          self.inner.fetch_sub(v, o)
        }
        pub fn fetch_max(&self, v: $t, o: Ordering) -> $t {
          pt();
          self.inner.fetch_max(v, o)
        }
        pub fn fetch_min(&self, v: $t, o: Ordering) -> $t {
          pt();
          self.inner.fetch_min(v, o)
        }
      }
    };
  }
  atomic_int!(AtomicBool, std::sync::atomic::AtomicBool, bool);
  atomic_int!(AtomicI8, std::sync::atomic::AtomicI8, i8);
  atomic_int!(AtomicU8, std::sync::atomic::AtomicU8, u8);
  atomic_int!(AtomicI16, std::sync::atomic::AtomicI16, i16);
  atomic_int!(AtomicU16, std::sync::atomic::AtomicU16, u16);
  atomic_int!(AtomicI32, std::sync::atomic::AtomicI32, i32);
  atomic_int!(AtomicU32, std::sync::atomic::AtomicU32, u32);
  atomic_int!(AtomicI64, std::sync::atomic::AtomicI64, i64);
  atomic_int!(AtomicU64, std::sync::atomic::AtomicU64, u64);
  atomic_int!(AtomicIsize, std::sync::atomic::AtomicIsize, isize);
  atomic_int!(AtomicUsize, std::sync::atomic::AtomicUsize, usize);
  atomic_arith!(AtomicI8, i8);
  atomic_arith!(AtomicU8, u8);
  atomic_arith!(AtomicI16, i16);
  atomic_arith!(AtomicU16, u16);
  atomic_arith!(AtomicI32, i32);
  atomic_arith!(AtomicU32, u32);
  atomic_arith!(AtomicI64, i64);
  atomic_arith!(AtomicU64, u64);
  atomic_arith!(AtomicIsize, isize);
  atomic_arith!(AtomicUsize, usize);

  /// `AtomicPtr` is passed through (no scheduling point): nothing in the crate uses it
  pub use std::sync::atomic::AtomicPtr;
}

// ---------------------------------------------------------------------------------------
// mpsc channels on top of the facade Mutex / Condvar, so that a blocking recv is a wait
// the controlled runtime sees (a real channel would block the only running OS thread)

pub mod mpsc {
  use super::{Condvar, Mutex};
  use std::collections::VecDeque;
  pub use std::sync::mpsc::{RecvError, RecvTimeoutError, SendError, TryRecvError, TrySendError};
  use std::sync::Arc;
  use std::time::Duration;

  struct Chan<T> {
    st: Mutex<St<T>>,
    not_empty: Condvar,
    not_full: Condvar,
  }
  struct St<T> {
    q: VecDeque<T>,
    senders: usize,
    rx_alive: bool,
    bound: Option<usize>,
  }

  pub struct Sender<T> {
    ch: Arc<Chan<T>>,
  }
  pub struct SyncSender<T> {
    ch: Arc<Chan<T>>,
  }
  pub struct Receiver<T> {
    ch: Arc<Chan<T>>,
  }

  fn mk<T>(bound: Option<usize>) -> Arc<Chan<T>> {
    Arc::new(Chan {
      st: Mutex::new(St { q: VecDeque::new(), senders: 1, rx_alive: true, bound }),
      not_empty: Condvar::new(),
      not_full: Condvar::new(),
    })
  }

  pub fn channel<T>() -> (Sender<T>, Receiver<T>) {
    let ch = mk(None);
    (Sender { ch: ch.clone() }, Receiver { ch })
  }

  /// a bound of 0 (rendezvous) is approximated by a bound of 1
  pub fn sync_channel<T>(bound: usize) -> (SyncSender<T>, Receiver<T>) {
    let ch = mk(Some(bound.max(1)));
    (SyncSender { ch: ch.clone() }, Receiver { ch })
  }

  fn send_impl<T>(ch: &Chan<T>, t: T, block: bool) -> Result<(), TrySendError<T>> {
    let mut st = ch.st.lock().unwrap();
    loop {
      if !st.rx_alive {
        return Err(TrySendError::Disconnected(t));
      }
      match st.bound {
        Some(b) if st.q.len() >= b => {
          if !block {
            return Err(TrySendError::Full(t));
          }
          st = ch.not_full.wait(st).unwrap();
        }
        _ => break,
      }
    }
    st.q.push_back(t);
    drop(st);
    ch.not_empty.notify_one();
    Ok(())
  }

  fn drop_sender<T>(ch: &Chan<T>) {
    let mut st = ch.st.lock().unwrap();
    st.senders -= 1;
    let last = st.senders == 0;
    drop(st);
    if last {
      ch.not_empty.notify_all();
    }
  }

  impl<T> Sender<T> {
    pub fn send(&self, t: T) -> Result<(), SendError<T>> {
      match send_impl(&self.ch, t, true) {
        Ok(()) => Ok(()),
        Err(TrySendError::Disconnected(t)) | Err(TrySendError::Full(t)) => Err(SendError(t)),
      }
    }
  }
  impl<T> Clone for Sender<T> {
    fn clone(&self) -> Self {
      self.ch.st.lock().unwrap().senders += 1;
      Sender { ch: self.ch.clone() }
    }
  }
  impl<T> Drop for Sender<T> {
    fn drop(&mut self) {
      drop_sender(&self.ch)
    }
  }
  impl<T> std::fmt::Debug for Sender<T> {
    fn fmt(&self, f: &mut std::fmt::Formatter<'_>) -> std::fmt::Result {
      f.write_str("Sender { .. }")
    }
  }

  impl<T> SyncSender<T> {
    pub fn send(&self, t: T) -> Result<(), SendError<T>> {
      match send_impl(&self.ch, t, true) {
        Ok(()) => Ok(()),
        Err(TrySendError::Disconnected(t)) | Err(TrySendError::Full(t)) => Err(SendError(t)),
      }
    }
    pub fn try_send(&self, t: T) -> Result<(), TrySendError<T>> {
      send_impl(&self.ch, t, false)
    }
  }
  impl<T> Clone for SyncSender<T> {
    fn clone(&self) -> Self {
      self.ch.st.lock().unwrap().senders += 1;
      SyncSender { ch: self.ch.clone() }
    }
  }
  impl<T> Drop for SyncSender<T> {
    fn drop(&mut self) {
      drop_sender(&self.ch)
    }
  }
  impl<T> std::fmt::Debug for SyncSender<T> {
    fn fmt(&self, f: &mut std::fmt::Formatter<'_>) -> std::fmt::Result {
      f.write_str("SyncSender { .. }")
    }
  }

  impl<T> Receiver<T> {
    fn took(&self) {
      self.ch.not_full.notify_one();
    }
    pub fn try_recv(&self) -> Result<T, TryRecvError> {
      let mut st = self.ch.st.lock().unwrap();
      match st.q.pop_front() {
        Some(t) => {
          drop(st);
          self.took();
          Ok(t)
        }
        None if st.senders == 0 => Err(TryRecvError::Disconnected),
        None => Err(TryRecvError::Empty),
      }
    }
    pub fn recv(&self) -> Result<T, RecvError> {
      let mut st = self.ch.st.lock().unwrap();
      loop {
        if let Some(t) = st.q.pop_front() {
          drop(st);
          self.took();
          return Ok(t);
        }
        if st.senders == 0 {
          return Err(RecvError);
        }
        st = self.ch.not_empty.wait(st).unwrap();
      }
    }
    pub fn recv_timeout(&self, d: Duration) -> Result<T, RecvTimeoutError> {
      let deadline = super::Instant::now() + d;
      let mut st = self.ch.st.lock().unwrap();
      loop {
        if let Some(t) = st.q.pop_front() {
          drop(st);
          self.took();
          return Ok(t);
        }
        if st.senders == 0 {
          return Err(RecvTimeoutError::Disconnected);
        }
        let now = super::Instant::now();
        if now >= deadline {
          return Err(RecvTimeoutError::Timeout);
        }
        st = self.ch.not_empty.wait_timeout(st, deadline.duration_since(now)).unwrap().0;
      }
    }
    pub fn iter(&self) -> Iter<'_, T> {
      Iter { rx: self }
    }
    pub fn try_iter(&self) -> TryIter<'_, T> {
      TryIter { rx: self }
    }
  }
  impl<T> Drop for Receiver<T> {
    fn drop(&mut self) {
      let mut st = self.ch.st.lock().unwrap();
      st.rx_alive = false;
      let rest = std::mem::take(&mut st.q);
      drop(st);
      drop(rest);
      self.ch.not_full.notify_all();
    }
  }
  impl<T> std::fmt::Debug for Receiver<T> {
    fn fmt(&self, f: &mut std::fmt::Formatter<'_>) -> std::fmt::Result {
      f.write_str("Receiver { .. }")
    }
  }

  pub struct Iter<'a, T> {
    rx: &'a Receiver<T>,
  }
  impl<'a, T> Iterator for Iter<'a, T> {
    type Item = T;
    fn next(&mut self) -> Option<T> {
      self.rx.recv().ok()
    }
  }
  pub struct TryIter<'a, T> {
    rx: &'a Receiver<T>,
  }
  impl<'a, T> Iterator for TryIter<'a, T> {
    type Item = T;
    fn next(&mut self) -> Option<T> {
      self.rx.try_recv().ok()
    }
  }
  pub struct IntoIter<T> {
    rx: Receiver<T>,
  }
  impl<T> Iterator for IntoIter<T> {
    type Item = T;
    fn next(&mut self) -> Option<T> {
      self.rx.recv().ok()
    }
  }
  impl<T> IntoIterator for Receiver<T> {
    type Item = T;
    type IntoIter = IntoIter<T>;
    fn into_iter(self) -> IntoIter<T> {
      IntoIter { rx: self }
    }
  }
  impl<'a, T> IntoIterator for &'a Receiver<T> {
    type Item = T;
    type IntoIter = Iter<'a, T>;
    fn into_iter(self) -> Iter<'a, T> {
      self.iter()
    }
  }
}
