//! std look-alikes. Outside an execution they delegate to std and behave exactly like
//! it; inside, every blocking operation is a scheduling point of the controlled runtime.

use crate::rt::{self, Ctx, Mode, Wait};
use std::ops::{Deref, DerefMut};
use std::sync::{LockResult, TryLockError};
use std::time::Duration;

fn free_try<G>(mut f: impl FnMut() -> Option<G>) -> G {
  // the execution is over and this thread is unwinding: other unwinding threads hold
  // real locks only briefly
  for i in 0..2000u32 {
    if let Some(g) = f() {
      return g;
    }
    std::thread::sleep(Duration::from_micros(if i < 100 { 10 } else { 200 }));
  }
  match rt::current() {
    Some(ctx) => rt::park_forever(&ctx),
    None => loop {
      std::thread::park();
    },
  }
}

// ---------------------------------------------------------------------------------------
// RwLock

#[derive(Default)]
pub struct RwLock<T: ?Sized> {
  inner: std::sync::RwLock<T>,
}

pub struct RwLockReadGuard<'a, T: ?Sized + 'a> {
  inner: Option<std::sync::RwLockReadGuard<'a, T>>,
  rel: Option<(Ctx, usize)>,
}

pub struct RwLockWriteGuard<'a, T: ?Sized + 'a> {
  inner: Option<std::sync::RwLockWriteGuard<'a, T>>,
  rel: Option<(Ctx, usize)>,
}

impl<T> RwLock<T> {
  pub const fn new(t: T) -> RwLock<T> {
    RwLock { inner: std::sync::RwLock::new(t) }
  }
  pub fn into_inner(self) -> LockResult<T> {
    Ok(match self.inner.into_inner() {
      Ok(x) => x,
      Err(p) => p.into_inner(),
    })
  }
}

impl<T: ?Sized> RwLock<T> {
  fn addr(&self) -> usize {
    &self.inner as *const _ as *const u8 as usize
  }

  fn try_read_real(&self) -> Option<std::sync::RwLockReadGuard<'_, T>> {
    match self.inner.try_read() {
      Ok(g) => Some(g),
      Err(TryLockError::Poisoned(p)) => Some(p.into_inner()),
      Err(TryLockError::WouldBlock) => None,
    }
  }

  fn try_write_real(&self) -> Option<std::sync::RwLockWriteGuard<'_, T>> {
    match self.inner.try_write() {
      Ok(g) => Some(g),
      Err(TryLockError::Poisoned(p)) => Some(p.into_inner()),
      Err(TryLockError::WouldBlock) => None,
    }
  }

  pub fn read(&self) -> LockResult<RwLockReadGuard<'_, T>> {
    let a = self.addr();
    match rt::sched_point(Wait::Read(a)) {
      Mode::Model(ctx) => {
        let g = self.try_read_real().expect("arx_rt: model granted a read the real lock refuses");
        let guard = RwLockReadGuard { inner: Some(g), rel: Some((ctx.clone(), a)) };
        rt::post_acquire_point(&ctx);
        Ok(guard)
      }
      Mode::Free => {
        let g = match self.inner.read() {
          Ok(g) => g,
          Err(p) => p.into_inner(),
        };
        Ok(RwLockReadGuard { inner: Some(g), rel: None })
      }
      Mode::FreeTry => {
        let g = free_try(|| self.try_read_real());
        Ok(RwLockReadGuard { inner: Some(g), rel: None })
      }
    }
  }

  pub fn write(&self) -> LockResult<RwLockWriteGuard<'_, T>> {
    let a = self.addr();
    match rt::sched_point(Wait::Write(a)) {
      Mode::Model(ctx) => {
        let g =
          self.try_write_real().expect("arx_rt: model granted a write the real lock refuses");
        let guard = RwLockWriteGuard { inner: Some(g), rel: Some((ctx.clone(), a)) };
        rt::post_acquire_point(&ctx);
        Ok(guard)
      }
      Mode::Free => {
        let g = match self.inner.write() {
          Ok(g) => g,
          Err(p) => p.into_inner(),
        };
        Ok(RwLockWriteGuard { inner: Some(g), rel: None })
      }
      Mode::FreeTry => {
        let g = free_try(|| self.try_write_real());
        Ok(RwLockWriteGuard { inner: Some(g), rel: None })
      }
    }
  }

  pub fn try_read(&self) -> std::sync::TryLockResult<RwLockReadGuard<'_, T>> {
    let a = self.addr();
    match rt::try_acquire(Wait::Read(a)) {
      rt::TryMode::Granted(ctx) => {
        let g = self.try_read_real().expect("arx_rt: model granted a try_read the real lock refuses");
        Ok(RwLockReadGuard { inner: Some(g), rel: Some((ctx, a)) })
      }
      rt::TryMode::Refused => Err(TryLockError::WouldBlock),
      rt::TryMode::Free => match self.try_read_real() {
        Some(g) => Ok(RwLockReadGuard { inner: Some(g), rel: None }),
        None => Err(TryLockError::WouldBlock),
      },
    }
  }

  pub fn try_write(&self) -> std::sync::TryLockResult<RwLockWriteGuard<'_, T>> {
    let a = self.addr();
    match rt::try_acquire(Wait::Write(a)) {
      rt::TryMode::Granted(ctx) => {
        let g = self.try_write_real().expect("arx_rt: model granted a try_write the real lock refuses");
        Ok(RwLockWriteGuard { inner: Some(g), rel: Some((ctx, a)) })
      }
      rt::TryMode::Refused => Err(TryLockError::WouldBlock),
      rt::TryMode::Free => match self.try_write_real() {
        Some(g) => Ok(RwLockWriteGuard { inner: Some(g), rel: None }),
        None => Err(TryLockError::WouldBlock),
      },
    }
  }

  pub fn get_mut(&mut self) -> LockResult<&mut T> {
    Ok(match self.inner.get_mut() {
      Ok(x) => x,
      Err(p) => p.into_inner(),
    })
  }

  pub fn is_poisoned(&self) -> bool {
    false
  }
}

impl<T: ?Sized + std::fmt::Debug> std::fmt::Debug for RwLock<T> {
  fn fmt(&self, f: &mut std::fmt::Formatter<'_>) -> std::fmt::Result {
    f.write_str("RwLock { .. }")
  }
}

impl<T> From<T> for RwLock<T> {
  fn from(t: T) -> Self {
    RwLock::new(t)
  }
}

impl<'a, T: ?Sized> Deref for RwLockReadGuard<'a, T> {
  type Target = T;
  fn deref(&self) -> &T {
    self.inner.as_ref().unwrap()
  }
}

impl<'a, T: ?Sized> Drop for RwLockReadGuard<'a, T> {
  fn drop(&mut self) {
    self.inner = None;
    if let Some((ctx, a)) = self.rel.take() {
      rt::release(&ctx, a, false);
    }
  }
}

impl<'a, T: ?Sized> Deref for RwLockWriteGuard<'a, T> {
  type Target = T;
  fn deref(&self) -> &T {
    self.inner.as_ref().unwrap()
  }
}

impl<'a, T: ?Sized> DerefMut for RwLockWriteGuard<'a, T> {
  fn deref_mut(&mut self) -> &mut T {
    self.inner.as_mut().unwrap()
  }
}

impl<'a, T: ?Sized> Drop for RwLockWriteGuard<'a, T> {
  fn drop(&mut self) {
    self.inner = None;
    if let Some((ctx, a)) = self.rel.take() {
      rt::release(&ctx, a, true);
    }
  }
}

impl<'a, T: ?Sized + std::fmt::Debug> std::fmt::Debug for RwLockReadGuard<'a, T> {
  fn fmt(&self, f: &mut std::fmt::Formatter<'_>) -> std::fmt::Result {
    (**self).fmt(f)
  }
}

impl<'a, T: ?Sized + std::fmt::Debug> std::fmt::Debug for RwLockWriteGuard<'a, T> {
  fn fmt(&self, f: &mut std::fmt::Formatter<'_>) -> std::fmt::Result {
    (**self).fmt(f)
  }
}

// ---------------------------------------------------------------------------------------
// Mutex + Condvar

#[derive(Default)]
pub struct Mutex<T: ?Sized> {
  inner: std::sync::Mutex<T>,
}

pub struct MutexGuard<'a, T: ?Sized + 'a> {
  mutex: &'a Mutex<T>,
  inner: Option<std::sync::MutexGuard<'a, T>>,
  rel: Option<(Ctx, usize)>,
}

impl<T> Mutex<T> {
  pub const fn new(t: T) -> Mutex<T> {
    Mutex { inner: std::sync::Mutex::new(t) }
  }
  pub fn into_inner(self) -> LockResult<T> {
    Ok(match self.inner.into_inner() {
      Ok(x) => x,
      Err(p) => p.into_inner(),
    })
  }
}

impl<T: ?Sized> Mutex<T> {
  fn addr(&self) -> usize {
    &self.inner as *const _ as *const u8 as usize
  }

  fn try_lock_real(&self) -> Option<std::sync::MutexGuard<'_, T>> {
    match self.inner.try_lock() {
      Ok(g) => Some(g),
      Err(TryLockError::Poisoned(p)) => Some(p.into_inner()),
      Err(TryLockError::WouldBlock) => None,
    }
  }

  pub fn lock(&self) -> LockResult<MutexGuard<'_, T>> {
    let a = self.addr();
    match rt::sched_point(Wait::Lock(a)) {
      Mode::Model(ctx) => {
        let g = self.try_lock_real().expect("arx_rt: model granted a mutex the real one refuses");
        let guard = MutexGuard { mutex: self, inner: Some(g), rel: Some((ctx.clone(), a)) };
        rt::post_acquire_point(&ctx);
        Ok(guard)
      }
      Mode::Free => {
        let g = match self.inner.lock() {
          Ok(g) => g,
          Err(p) => p.into_inner(),
        };
        Ok(MutexGuard { mutex: self, inner: Some(g), rel: None })
      }
      Mode::FreeTry => {
        let g = free_try(|| self.try_lock_real());
        Ok(MutexGuard { mutex: self, inner: Some(g), rel: None })
      }
    }
  }

  pub fn try_lock(&self) -> std::sync::TryLockResult<MutexGuard<'_, T>> {
    let a = self.addr();
    match rt::try_acquire(Wait::Lock(a)) {
      rt::TryMode::Granted(ctx) => {
        let g = self.try_lock_real().expect("arx_rt: model granted a try_lock the real mutex refuses");
        Ok(MutexGuard { mutex: self, inner: Some(g), rel: Some((ctx, a)) })
      }
      rt::TryMode::Refused => Err(TryLockError::WouldBlock),
      rt::TryMode::Free => match self.try_lock_real() {
        Some(g) => Ok(MutexGuard { mutex: self, inner: Some(g), rel: None }),
        None => Err(TryLockError::WouldBlock),
      },
    }
  }

  pub fn get_mut(&mut self) -> LockResult<&mut T> {
    Ok(match self.inner.get_mut() {
      Ok(x) => x,
      Err(p) => p.into_inner(),
    })
  }

  pub fn is_poisoned(&self) -> bool {
    false
  }
}

impl<T: ?Sized + std::fmt::Debug> std::fmt::Debug for Mutex<T> {
  fn fmt(&self, f: &mut std::fmt::Formatter<'_>) -> std::fmt::Result {
    f.write_str("Mutex { .. }")
  }
}

impl<'a, T: ?Sized> Deref for MutexGuard<'a, T> {
  type Target = T;
  fn deref(&self) -> &T {
    self.inner.as_ref().unwrap()
  }
}

impl<'a, T: ?Sized> DerefMut for MutexGuard<'a, T> {
  fn deref_mut(&mut self) -> &mut T {
    self.inner.as_mut().unwrap()
  }
}

impl<'a, T: ?Sized> Drop for MutexGuard<'a, T> {
  fn drop(&mut self) {
    self.inner = None;
    if let Some((ctx, a)) = self.rel.take() {
      rt::release(&ctx, a, true);
    }
  }
}

#[derive(Clone, Copy, Debug, PartialEq, Eq)]
pub struct WaitTimeoutResult(bool);

impl WaitTimeoutResult {
  pub fn timed_out(&self) -> bool {
    self.0
  }
}

#[derive(Default)]
pub struct Condvar {
  inner: std::sync::Condvar,
}

impl Condvar {
  pub const fn new() -> Condvar {
    Condvar { inner: std::sync::Condvar::new() }
  }

  fn addr(&self) -> usize {
    &self.inner as *const _ as *const u8 as usize
  }

  pub fn wait<'a, T>(&self, mut guard: MutexGuard<'a, T>) -> LockResult<MutexGuard<'a, T>> {
    let mutex = guard.mutex;
    match guard.rel.take() {
      Some((ctx, m)) => {
        // a thread can be preempted between testing its predicate and starting to wait
        // (still holding the mutex): a notify sent without the mutex is lost there
        guard.rel = Some((ctx.clone(), m));
        rt::post_acquire_point(&ctx);
        guard.rel = None;
        // release the real mutex, then (atomically in the model) release + wait
        guard.inner = None;
        drop(guard);
        rt::cond_wait(&ctx, self.addr(), m);
        let g = mutex
          .try_lock_real()
          .expect("arx_rt: model granted a mutex (after wait) the real one refuses");
        Ok(MutexGuard { mutex, inner: Some(g), rel: Some((ctx, m)) })
      }
      None => {
        let g = guard.inner.take().unwrap();
        drop(guard);
        let g = match self.inner.wait(g) {
          Ok(g) => g,
          Err(p) => p.into_inner(),
        };
        Ok(MutexGuard { mutex, inner: Some(g), rel: None })
      }
    }
  }

  pub fn wait_timeout<'a, T>(
    &self,
    mut guard: MutexGuard<'a, T>,
    dur: Duration,
  ) -> LockResult<(MutexGuard<'a, T>, WaitTimeoutResult)> {
    let mutex = guard.mutex;
    match guard.rel.take() {
      Some((ctx, m)) => {
        guard.rel = Some((ctx.clone(), m));
        rt::post_acquire_point(&ctx);
        guard.rel = None;
        guard.inner = None;
        drop(guard);
        let timed_out = rt::cond_wait_timed(&ctx, self.addr(), m, dur.as_nanos().min(u64::MAX as u128) as u64);
        let g = mutex
          .try_lock_real()
          .expect("arx_rt: model granted a mutex (after timed wait) the real one refuses");
        Ok((MutexGuard { mutex, inner: Some(g), rel: Some((ctx, m)) }, WaitTimeoutResult(timed_out)))
      }
      None => {
        let g = guard.inner.take().unwrap();
        drop(guard);
        let (g, r) = match self.inner.wait_timeout(g, dur) {
          Ok(x) => x,
          Err(p) => p.into_inner(),
        };
        Ok((MutexGuard { mutex, inner: Some(g), rel: None }, WaitTimeoutResult(r.timed_out())))
      }
    }
  }

  pub fn wait_timeout_while<'a, T, F>(
    &self,
    mut guard: MutexGuard<'a, T>,
    dur: Duration,
    mut condition: F,
  ) -> LockResult<(MutexGuard<'a, T>, WaitTimeoutResult)>
  where
    F: FnMut(&mut T) -> bool,
  {
    let start = Instant::now();
    loop {
      if !condition(&mut *guard) {
        return Ok((guard, WaitTimeoutResult(false)));
      }
      let elapsed = start.elapsed();
      if elapsed >= dur {
        return Ok((guard, WaitTimeoutResult(true)));
      }
      let (g, _) = self.wait_timeout(guard, dur - elapsed)?;
      guard = g;
    }
  }

  pub fn wait_while<'a, T, F>(
    &self,
    mut guard: MutexGuard<'a, T>,
    mut condition: F,
  ) -> LockResult<MutexGuard<'a, T>>
  where
    F: FnMut(&mut T) -> bool,
  {
    while condition(&mut *guard) {
      guard = self.wait(guard)?;
    }
    Ok(guard)
  }

  pub fn notify_one(&self) {
    match rt::current() {
      Some(ctx) => {
        rt::post_acquire_point(&ctx);
        rt::cond_notify(&ctx, self.addr(), false)
      }
      None => self.inner.notify_one(),
    }
  }

  pub fn notify_all(&self) {
    match rt::current() {
      Some(ctx) => {
        rt::post_acquire_point(&ctx);
        rt::cond_notify(&ctx, self.addr(), true)
      }
      None => self.inner.notify_all(),
    }
  }
}

impl std::fmt::Debug for Condvar {
  fn fmt(&self, f: &mut std::fmt::Formatter<'_>) -> std::fmt::Result {
    f.write_str("Condvar { .. }")
  }
}

// ---------------------------------------------------------------------------------------
// thread

pub enum JoinHandle<T> {
  Std(std::thread::JoinHandle<T>),
  Model { tid: usize, slot: std::sync::Arc<std::sync::Mutex<Option<T>>> },
}

impl<T> JoinHandle<T> {
  pub fn join(self) -> std::thread::Result<T> {
    match self {
      JoinHandle::Std(h) => h.join(),
      JoinHandle::Model { tid, slot } => {
        if tid != usize::MAX {
          let _ = rt::sched_point(Wait::Join(tid));
        }
        let v = match slot.lock() {
          Ok(mut g) => g.take(),
          Err(p) => p.into_inner().take(),
        };
        match v {
          Some(v) => Ok(v),
          None => Err(Box::new("thread did not finish normally")),
        }
      }
    }
  }

  pub fn is_finished(&self) -> bool {
    match self {
      JoinHandle::Std(h) => h.is_finished(),
      JoinHandle::Model { slot, .. } => match slot.lock() {
        Ok(g) => g.is_some(),
        Err(_) => true,
      },
    }
  }
}

/// `thread::Builder` look-alike: name and stack size are accepted and ignored inside an
/// execution (threads come from the runtime's pool)
#[derive(Debug, Default)]
pub struct Builder {
  name: Option<String>,
  stack: Option<usize>,
}

impl Builder {
  pub fn new() -> Builder {
    Builder::default()
  }
  pub fn name(mut self, name: String) -> Builder {
    self.name = Some(name);
    self
  }
  pub fn stack_size(mut self, size: usize) -> Builder {
    self.stack = Some(size);
    self
  }
  pub fn spawn<F, T>(self, f: F) -> std::io::Result<JoinHandle<T>>
  where
    F: FnOnce() -> T + Send + 'static,
    T: Send + 'static,
  {
    if rt::in_exec() {
      Ok(spawn(f))
    } else {
      let mut b = std::thread::Builder::new();
      if let Some(n) = self.name {
        b = b.name(n);
      }
      if let Some(s) = self.stack {
        b = b.stack_size(s);
      }
      b.spawn(f).map(JoinHandle::Std)
    }
  }
}

pub fn spawn<F, T>(f: F) -> JoinHandle<T>
where
  F: FnOnce() -> T + Send + 'static,
  T: Send + 'static,
{
  match rt::current() {
    Some(ctx) => {
      let slot = std::sync::Arc::new(std::sync::Mutex::new(None));
      let slot2 = slot.clone();
      let tid = rt::spawn_in(
        &ctx,
        None,
        true,
        Box::new(move || {
          let v = f();
          if let Ok(mut g) = slot2.lock() {
            *g = Some(v);
          }
        }),
      );
      JoinHandle::Model { tid, slot }
    }
    None => JoinHandle::Std(std::thread::spawn(f)),
  }
}

pub fn sleep(dur: Duration) {
  match rt::current() {
    Some(_) => rt::sleep_ns(dur.as_nanos().min(u64::MAX as u128) as u64),
    None => std::thread::sleep(dur),
  }
}

pub fn yield_now() {
  match rt::current() {
    Some(_) => rt::yield_point(),
    None => std::thread::yield_now(),
  }
}

// ---------------------------------------------------------------------------------------
// time

#[derive(Clone, Copy, Debug, PartialEq, Eq, PartialOrd, Ord, Hash)]
pub struct Instant {
  real: std::time::Instant,
  virt: Option<u64>,
}

impl Instant {
  pub fn now() -> Instant {
    let virt = if rt::in_exec() { Some(rt::now()) } else { None };
    Instant { real: std::time::Instant::now(), virt }
  }

  pub fn elapsed(&self) -> Duration {
    Instant::now().duration_since(*self)
  }

  pub fn duration_since(&self, earlier: Instant) -> Duration {
    match (self.virt, earlier.virt) {
      (Some(a), Some(b)) => Duration::from_nanos(a.saturating_sub(b)),
      _ => self.real.saturating_duration_since(earlier.real),
    }
  }

  pub fn saturating_duration_since(&self, earlier: Instant) -> Duration {
    self.duration_since(earlier)
  }

  pub fn checked_duration_since(&self, earlier: Instant) -> Option<Duration> {
    Some(self.duration_since(earlier))
  }
}

impl std::ops::Sub<Instant> for Instant {
  type Output = Duration;
  fn sub(self, other: Instant) -> Duration {
    self.duration_since(other)
  }
}

impl std::ops::Add<Duration> for Instant {
  type Output = Instant;
  fn add(self, d: Duration) -> Instant {
    Instant { real: self.real + d, virt: self.virt.map(|v| v + d.as_nanos() as u64) }
  }
}

impl std::ops::Sub<Duration> for Instant {
  type Output = Instant;
  fn sub(self, d: Duration) -> Instant {
    Instant {
      real: self.real.checked_sub(d).unwrap_or(self.real),
      virt: self.virt.map(|v| v.saturating_sub(d.as_nanos() as u64)),
    }
  }
}

// ---------------------------------------------------------------------------------------
// collections: HashMap with a deterministic, per-execution seeded hasher

#[derive(Clone, Copy, Debug)]
pub struct DetState {
  seed: u64,
}

impl DetState {
  pub fn new() -> DetState {
    let seed = match rt::current() {
      Some(ctx) => ctx.exec.hash_seed,
      None => 0,
    };
    DetState { seed }
  }
}

impl Default for DetState {
  fn default() -> Self {
    DetState::new()
  }
}

impl std::hash::BuildHasher for DetState {
  type Hasher = std::collections::hash_map::DefaultHasher;
  fn build_hasher(&self) -> Self::Hasher {
    use std::hash::Hasher;
    let mut h = std::collections::hash_map::DefaultHasher::new();
    h.write_u64(self.seed);
    h
  }
}

pub struct HashMap<K, V> {
  inner: std::collections::HashMap<K, V, DetState>,
}

impl<K, V> HashMap<K, V> {
  pub fn new() -> HashMap<K, V> {
    HashMap { inner: std::collections::HashMap::with_hasher(DetState::new()) }
  }
  pub fn with_capacity(n: usize) -> HashMap<K, V> {
    HashMap { inner: std::collections::HashMap::with_capacity_and_hasher(n, DetState::new()) }
  }
}

impl<K, V> Default for HashMap<K, V> {
  fn default() -> Self {
    HashMap::new()
  }
}

impl<K: Clone, V: Clone> Clone for HashMap<K, V> {
  fn clone(&self) -> Self {
    HashMap { inner: self.inner.clone() }
  }
}

impl<K: std::fmt::Debug, V: std::fmt::Debug> std::fmt::Debug for HashMap<K, V> {
  fn fmt(&self, f: &mut std::fmt::Formatter<'_>) -> std::fmt::Result {
    self.inner.fmt(f)
  }
}

impl<K, V> Deref for HashMap<K, V> {
  type Target = std::collections::HashMap<K, V, DetState>;
  fn deref(&self) -> &Self::Target {
    &self.inner
  }
}

impl<K, V> DerefMut for HashMap<K, V> {
  fn deref_mut(&mut self) -> &mut Self::Target {
    &mut self.inner
  }
}

impl<K: Eq + std::hash::Hash, V> FromIterator<(K, V)> for HashMap<K, V> {
  fn from_iter<I: IntoIterator<Item = (K, V)>>(it: I) -> Self {
    let mut m = HashMap::new();
    for (k, v) in it {
      m.inner.insert(k, v);
    }
    m
  }
}

impl<K, V> IntoIterator for HashMap<K, V> {
  type Item = (K, V);
  type IntoIter = std::collections::hash_map::IntoIter<K, V>;
  fn into_iter(self) -> Self::IntoIter {
    self.inner.into_iter()
  }
}

impl<'a, K, V> IntoIterator for &'a HashMap<K, V> {
  type Item = (&'a K, &'a V);
  type IntoIter = std::collections::hash_map::Iter<'a, K, V>;
  fn into_iter(self) -> Self::IntoIter {
    self.inner.iter()
  }
}

impl<'a, K, V> IntoIterator for &'a mut HashMap<K, V> {
  type Item = (&'a K, &'a mut V);
  type IntoIter = std::collections::hash_map::IterMut<'a, K, V>;
  fn into_iter(self) -> Self::IntoIter {
    self.inner.iter_mut()
  }
}
