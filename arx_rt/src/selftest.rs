//! Known-answer programs for the runtime itself. `run_all` returns a list of failures.

use crate::stdx::sync::{Arc, Condvar, Mutex, RwLock};
use crate::stdx::thread;
use crate::{run, Config, Kind, Schedule};
use std::time::Duration;

fn cfg(walk: Option<(u64, u8)>) -> Config {
  Config { schedule: Schedule { walk, ..Schedule::default() }, max_steps: 50_000, fuel: 100_000 }
}

pub fn run_all(rounds: u64) -> Vec<String> {
  let mut fails = Vec::new();
  let mut inv = (0u32, 0u32);
  let mut rec = (0u32, 0u32);
  let mut atom = (0u32, 0u32);
  let mut check = |name: &str, ok: bool, detail: String| {
    if !ok {
      fails.push(format!("{}: {}", name, detail));
    }
  };
  for r in 0..rounds {
    let walk = if r == 0 { None } else { Some((r, 30)) };

    // 1. plain completion, two threads incrementing under a lock
    let total = std::sync::Arc::new(std::sync::atomic::AtomicUsize::new(0));
    let t2 = total.clone();
    let o = run(cfg(walk), move || {
      let v = Arc::new(RwLock::new(0usize));
      let hs: Vec<_> = (0..3)
        .map(|_| {
          let v = v.clone();
          thread::spawn(move || {
            for _ in 0..5 {
              let mut g = v.write().unwrap();
              *g += 1;
            }
          })
        })
        .collect();
      for h in hs {
        h.join().unwrap();
      }
      t2.store(*v.read().unwrap(), std::sync::atomic::Ordering::SeqCst);
    });
    check("counter", o.kind == Kind::Done && total.load(std::sync::atomic::Ordering::SeqCst) == 15, o.describe());

    // 2. self-deadlock: write while holding read
    let o = run(cfg(walk), || {
      let v = RwLock::new(0);
      let _g = v.read().unwrap();
      let _h = v.write().unwrap();
    });
    check("self-deadlock", o.kind == Kind::Deadlock, o.describe());

    // 3. lock-order inversion: deadlocks in some schedules only, never hangs
    let o = run(cfg(walk), || {
      let a = Arc::new(Mutex::new(0));
      let b = Arc::new(Mutex::new(0));
      let (a2, b2) = (a.clone(), b.clone());
      let h = thread::spawn(move || {
        let _x = b2.lock().unwrap();
        let _y = a2.lock().unwrap();
      });
      {
        let _x = a.lock().unwrap();
        let _y = b.lock().unwrap();
      }
      h.join().unwrap();
    });
    check("inversion", o.kind == Kind::Done || o.kind == Kind::Deadlock, o.describe());
    if o.kind == Kind::Done { inv.0 += 1 } else { inv.1 += 1 }

    // 4. condvar hand-off: never lost
    let got = std::sync::Arc::new(std::sync::atomic::AtomicUsize::new(0));
    let g2 = got.clone();
    let o = run(cfg(walk), move || {
      let pair = Arc::new((Mutex::new(Vec::<u32>::new()), Condvar::new()));
      let p2 = pair.clone();
      let h = thread::spawn(move || {
        let mut n = 0;
        while n < 3 {
          let g = p2.0.lock().unwrap();
          let mut g = p2.1.wait_while(g, |q| q.is_empty()).unwrap();
          n += g.len();
          g.clear();
        }
        n
      });
      for i in 0..3 {
        let mut g = pair.0.lock().unwrap();
        g.push(i);
        pair.1.notify_one();
      }
      g2.store(h.join().unwrap(), std::sync::atomic::Ordering::SeqCst);
    });
    check("condvar", o.kind == Kind::Done && got.load(std::sync::atomic::Ordering::SeqCst) == 3, o.describe());

    // 5. lost notify (notify before the waiter checks nothing): waiter parks for ever ->
    //    Quiescent with main unfinished, not a hang
    let o = run(cfg(walk), || {
      let pair = Arc::new((Mutex::new(false), Condvar::new()));
      pair.1.notify_one();
      let g = pair.0.lock().unwrap();
      let _g = pair.1.wait(g).unwrap();
    });
    check("lost-notify", o.kind == Kind::Quiescent && !o.main_finished(), o.describe());

    // 6. sleepers wake in time order on the virtual clock
    let order = std::sync::Arc::new(std::sync::Mutex::new(Vec::new()));
    let o2 = order.clone();
    let o = run(cfg(walk), move || {
      let hs: Vec<_> = [30u64, 10, 20]
        .iter()
        .map(|d| {
          let d = *d;
          let o3 = o2.clone();
          thread::spawn(move || {
            thread::sleep(Duration::from_millis(d));
            o3.lock().unwrap().push((d, crate::now()));
          })
        })
        .collect();
      for h in hs {
        h.join().unwrap();
      }
    });
    let v = order.lock().unwrap().clone();
    check(
      "sleepers",
      o.kind == Kind::Done && v == vec![(10, 10_000_000), (20, 20_000_000), (30, 30_000_000)] && o.clock == 30_000_000,
      format!("{:?} {}", v, o.describe()),
    );

    // 7. recursive read with a queued writer deadlocks in some schedules (futex RwLock)
    let o = run(cfg(walk), || {
      let v = Arc::new(RwLock::new(0));
      let v2 = v.clone();
      let h = thread::spawn(move || {
        *v2.write().unwrap() += 1;
      });
      {
        let _a = v.read().unwrap();
        crate::yield_point();
        let _b = v.read().unwrap();
      }
      h.join().unwrap();
    });
    check("recursive-read", o.kind == Kind::Done || o.kind == Kind::Deadlock, o.describe());
    if o.kind == Kind::Done { rec.0 += 1 } else { rec.1 += 1 }

    // 8. worker parked on a condvar at the end -> Quiescent, main finished
    let o = run(cfg(walk), || {
      let pair = Arc::new((Mutex::new(false), Condvar::new()));
      let p2 = pair.clone();
      thread::spawn(move || {
        let g = p2.0.lock().unwrap();
        let _g = p2.1.wait_while(g, |x| !*x).unwrap();
      });
    });
    check("parked-worker", o.kind == Kind::Quiescent && o.main_finished(), o.describe());

    // 9. endless loop hits the step budget
    let o = run(cfg(walk), || {
      let v = RwLock::new(0u64);
      loop {
        *v.write().unwrap() += 1;
      }
    });
    check("step-budget", o.kind == Kind::StepBudget, o.describe());

    // 10. fuel
    let o = run(cfg(walk), || loop {
      crate::burn(1000);
    });
    check("fuel", o.kind == Kind::FuelExhausted, o.describe());

    // 11. panic in a thread
    let o = run(cfg(walk), || {
      let v = Arc::new(RwLock::new(0));
      let v2 = v.clone();
      let h = thread::spawn(move || {
        let _g = v2.write().unwrap();
        panic!("boom");
      });
      let _ = h.join();
      let _ = v.read().unwrap();
    });
    check("panic", o.kind == Kind::Panic && o.panics.iter().any(|p| p.contains("boom")), o.describe());

    // 12. settle(): main sees the worker's effect without sleeping
    let seen = std::sync::Arc::new(std::sync::atomic::AtomicUsize::new(0));
    let s2 = seen.clone();
    let o = run(cfg(walk), move || {
      let v = Arc::new(RwLock::new(0usize));
      let v2 = v.clone();
      thread::spawn(move || {
        for _ in 0..4 {
          *v2.write().unwrap() += 1;
        }
      });
      crate::settle();
      s2.store(*v.read().unwrap(), std::sync::atomic::Ordering::SeqCst);
    });
    check("settle", o.kind == Kind::Done && seen.load(std::sync::atomic::Ordering::SeqCst) == 4, o.describe());
  }

  // 14. timed waits on the virtual clock; spurious wake-ups
  for r in 0..rounds.min(40) {
    let walk = if r == 0 { None } else { Some((r, 30)) };
    let res = std::sync::Arc::new(std::sync::Mutex::new((false, 0u64, false, 0u64)));
    let r2 = res.clone();
    let o = run(cfg(walk), move || {
      let pair = Arc::new((Mutex::new(false), Condvar::new()));
      // nobody notifies: times out exactly at 5 ms
      let g = pair.0.lock().unwrap();
      let (g, t) = pair.1.wait_timeout(g, Duration::from_millis(5)).unwrap();
      drop(g);
      let a = (t.timed_out(), crate::now());
      // notified at 2 ms, deadline at 50 ms
      let p2 = pair.clone();
      let h = thread::spawn(move || {
        thread::sleep(Duration::from_millis(2));
        *p2.0.lock().unwrap() = true;
        p2.1.notify_one();
      });
      let g = pair.0.lock().unwrap();
      let (g, t) = pair.1.wait_timeout_while(g, Duration::from_millis(50), |x| !*x).unwrap();
      drop(g);
      h.join().unwrap();
      *r2.lock().unwrap() = (a.0, a.1, t.timed_out(), crate::now());
    });
    let v = *res.lock().unwrap();
    check("wait_timeout", o.kind == Kind::Done && v.0 && v.1 == 5_000_000 && !v.2 && v.3 == 7_000_000, format!("{:?} {}", v, o.describe()));
  }
  let mut spurious_seen = 0;
  for r in 1..60u64 {
    let got = std::sync::Arc::new(std::sync::atomic::AtomicBool::new(false));
    let g2 = got.clone();
    let o = run(
      Config { schedule: Schedule { walk: Some((r, 30)), spurious: true, ..Schedule::default() }, max_steps: 50_000, fuel: 100_000 },
      move || {
        let pair = Arc::new((Mutex::new(0u32), Condvar::new()));
        let p2 = pair.clone();
        let h = thread::spawn(move || {
          for _ in 0..20 {
            crate::yield_point();
          }
          *p2.0.lock().unwrap() = 1;
          p2.1.notify_one();
        });
        let g = pair.0.lock().unwrap();
        // a single wait without re-testing: may return early under spurious wake-ups
        let g = if *g == 0 { pair.1.wait(g).unwrap() } else { g };
        if *g == 0 {
          g2.store(true, std::sync::atomic::Ordering::SeqCst);
        }
        drop(g);
        h.join().unwrap();
      },
    );
    if o.kind != Kind::Done {
      fails.push(format!("spurious: {}", o.describe()));
    }
    if got.load(std::sync::atomic::Ordering::SeqCst) {
      spurious_seen += 1;
    }
  }
  if rounds >= 50 && spurious_seen == 0 {
    fails.push("spurious wake-ups were never injected".into());

  }
  for r in 0..rounds {
    let walk = if r == 0 { None } else { Some((r, 30)) };
    // 14. mpsc: a worker fed through a channel; every item arrives once, in order, and the
    //     receiver sees the disconnect
    let got = std::sync::Arc::new(std::sync::Mutex::new(Vec::new()));
    let g2 = got.clone();
    let o = run(cfg(walk), move || {
      let (tx, rx) = crate::stdx::sync::mpsc::channel::<u32>();
      let g3 = g2.clone();
      let h = thread::spawn(move || {
        for x in rx {
          g3.lock().unwrap().push(x);
        }
      });
      let tx2 = tx.clone();
      let h2 = thread::spawn(move || {
        for i in 0..4 {
          tx2.send(i).unwrap();
        }
      });
      h2.join().unwrap();
      tx.send(99).unwrap();
      drop(tx);
      h.join().unwrap();
    });
    let v = got.lock().unwrap().clone();
    if !(o.kind == Kind::Done && v == vec![0, 1, 2, 3, 99]) {
      fails.push(format!("mpsc: {} {:?}", o.describe(), v));
    }

    // 15. mpsc recv_timeout on the virtual clock, sync_channel back-pressure
    let o = run(cfg(walk), move || {
      let (tx, rx) = crate::stdx::sync::mpsc::channel::<u32>();
      let t0 = crate::stdx::time::Instant::now();
      let r = rx.recv_timeout(Duration::from_secs(3600));
      assert!(r.is_err());
      assert!(t0.elapsed() >= Duration::from_secs(3600));
      drop(tx);
      assert!(rx.recv().is_err());
      let (stx, srx) = crate::stdx::sync::mpsc::sync_channel::<u32>(1);
      let h = thread::spawn(move || {
        for i in 0..5 {
          stx.send(i).unwrap();
        }
      });
      let v: Vec<u32> = srx.iter().collect();
      assert_eq!(v, vec![0, 1, 2, 3, 4]);
      h.join().unwrap();
    });
    if o.kind != Kind::Done {
      fails.push(format!("mpsc-timeout: {}", o.describe()));
    }

    // 16. a spin-wait on an atomic with yield_now / spin_loop terminates under every
    //     schedule; atomics keep lost-update races visible
    let lost = std::sync::Arc::new(std::sync::atomic::AtomicUsize::new(0));
    let l2 = lost.clone();
    let o = run(cfg(walk), move || {
      use crate::stdx::sync::atomic::{AtomicBool, AtomicUsize, Ordering};
      let flag = Arc::new(AtomicBool::new(false));
      let n = Arc::new(AtomicUsize::new(0));
      let (f2, n2) = (flag.clone(), n.clone());
      let h = thread::spawn(move || {
        let v = n2.load(Ordering::SeqCst);
        n2.store(v + 1, Ordering::SeqCst);
        f2.store(true, Ordering::SeqCst);
      });
      let v = n.load(Ordering::SeqCst);
      n.store(v + 1, Ordering::SeqCst);
      let mut spins = 0;
      while !flag.load(Ordering::SeqCst) {
        if spins % 2 == 0 {
          thread::yield_now();
        } else {
          crate::stdx::hint::spin_loop();
        }
        spins += 1;
      }
      h.join().unwrap();
      l2.store(n.load(Ordering::SeqCst), Ordering::SeqCst);
    });
    // 17. park / unpark and thread identities: a parked worker is woken by unpark (also
    //     when the unpark comes first), ids differ between live threads, park_timeout ends
    //     on the virtual clock
    let op = run(cfg(walk), move || {
      use crate::stdx::sync::atomic::{AtomicUsize, Ordering};
      let hits = Arc::new(AtomicUsize::new(0));
      let h2 = hits.clone();
      let me = thread::current();
      let my_id = me.id();
      let h = thread::spawn(move || {
        assert!(thread::current().id() != my_id);
        while h2.load(Ordering::SeqCst) == 0 {
          thread::park();
        }
        me.unpark();
        thread::current().id()
      });
      let wid = h.thread().id();
      hits.store(1, Ordering::SeqCst);
      h.thread().unpark();
      thread::park();
      assert_eq!(h.join().unwrap(), wid);
      let t0 = crate::stdx::time::Instant::now();
      thread::park_timeout(Duration::from_secs(5));
      assert!(t0.elapsed() >= Duration::from_secs(5));
    });
    if op.kind != Kind::Done {
      fails.push(format!("park: {}", op.describe()));
    }

    let n = lost.load(std::sync::atomic::Ordering::SeqCst);
    if !(o.kind == Kind::Done && (n == 1 || n == 2)) {
      fails.push(format!("atomic-spin: {} n={}", o.describe(), n));
    }
    if n == 1 {
      atom.0 += 1;
    } else {
      atom.1 += 1;
    }
  }
  // 18. release points: with them a try_lock can find a mutex still held after the holder
  //     finished its critical section's work; without them it cannot
  for on in [false, true] {
    crate::set_release_points(on);
    let mut seen = 0u32;
    for r in 1..rounds.max(2) {
      let hit = std::sync::Arc::new(std::sync::atomic::AtomicBool::new(false));
      let h2 = hit.clone();
      let o = run(cfg(Some((r, 30))), move || {
        let m = Arc::new(Mutex::new(0u32));
        let written = std::sync::Arc::new(std::sync::atomic::AtomicBool::new(false));
        let (m2, w2) = (m.clone(), written.clone());
        let h = thread::spawn(move || {
          let mut g = m2.lock().unwrap();
          *g = 1;
          w2.store(true, std::sync::atomic::Ordering::SeqCst);
          drop(g);
        });
        let held = m.try_lock().is_err();
        if held && written.load(std::sync::atomic::Ordering::SeqCst) {
          h2.store(true, std::sync::atomic::Ordering::SeqCst);
        }
        h.join().unwrap();
      });
      if o.kind != Kind::Done {
        fails.push(format!("release-points({}): {}", on, o.describe()));
      }
      if hit.load(std::sync::atomic::Ordering::SeqCst) {
        seen += 1;
      }
    }
    if !on && seen > 0 {
      fails.push(format!("release-points(off): a held-after-write state was seen {} times", seen));
    }
    if on && rounds >= 50 && seen == 0 {
      fails.push("release-points(on): the held-after-write state was never reached".into());
    }
  }
  crate::set_release_points(false);
  if rounds >= 50 {
    if atom.0 == 0 || atom.1 == 0 {
      fails.push(format!("atomic-spin: schedules not diverse: lost={} kept={}", atom.0, atom.1));
    }
    if inv.0 == 0 || inv.1 == 0 {
      fails.push(format!("inversion: schedules not diverse: done={} deadlock={}", inv.0, inv.1));
    }
    if rec.0 == 0 || rec.1 == 0 {
      fails.push(format!("recursive-read: schedules not diverse: done={} deadlock={}", rec.0, rec.1));
    }
  }
  // 13. replay: a random walk's `taken` list reproduces the same interleaving
  for seed in 1..20u64 {
    let trace = |sch: Schedule| {
      let log = std::sync::Arc::new(std::sync::Mutex::new(Vec::new()));
      let l2 = log.clone();
      let o = run(Config { schedule: sch, max_steps: 50_000, fuel: 100_000 }, move || {
        let v = Arc::new(RwLock::new(0usize));
        let hs: Vec<_> = (0..3usize)
          .map(|i| {
            let v = v.clone();
            let l3 = l2.clone();
            thread::spawn(move || {
              for _ in 0..3 {
                let mut g = v.write().unwrap();
                *g += 1;
                l3.lock().unwrap().push(i);
              }
            })
          })
          .collect();
        for h in hs {
          h.join().unwrap();
        }
      });
      let v = log.lock().unwrap().clone();
      (v, o)
    };
    let (a, oa) = trace(Schedule { walk: Some((seed, 40)), ..Schedule::default() });
    let (b, ob) = trace(Schedule { overrides: oa.taken.clone(), ..Schedule::default() });
    if a != b || oa.kind != Kind::Done || ob.kind != Kind::Done {
      fails.push(format!("replay seed {}: {:?} vs {:?}", seed, a, b));
    }
  }
  fails
}
