#!/bin/bash
# ./run.sh <ID> quick|thorough      -- build from /repo's current working tree, then check
# ./run.sh replay <file>            -- re-run one replay file
# ./run.sh build                    -- build only (MANIFEST.setup_cmd)
cd "$(dirname "$0")" || exit 2
export CARGO_NET_OFFLINE=true
export VERIF_ROOT="$(pwd)"
SRC="${ARX_REPO_SRC:-/repo/src}"
export ARX_REPO_SRC="$SRC"
# content hash of the tree: rebuild the instrumented copy whenever any source byte changed
export ARX_SRC_HASH="$(find "$SRC" -type f -name '*.rs' -print0 | sort -z | xargs -0 cat | sha256sum | cut -d' ' -f1)"
build() {
  if ! cargo build --release --offline -q 2> target/.build.log; then
    cat target/.build.log >&2
    echo "build failed (instrumented copy of $SRC does not compile against the facade): inconclusive" >&2
    exit 2
  fi
}
# Coverage-guided tier (thorough only, not load-bearing): libFuzzer on the same oracles.
# 8 instances x FUZZ_RUNS executions, fresh corpora under target/, seeds derived from
# VERIF_SEED. A violation is reported by the target itself (replay file + VIOLATION line).
fuzz_tier() {
  local id="$1" seed="${VERIF_SEED:-20261002}" runs="${FUZZ_RUNS:-150000}" n=8 i
  local stats="target/fuzz_stats_${id}.json"
  rm -f "$stats"
  if ! ( cd fuzz && cargo +nightly fuzz build -s none > ../target/.fuzz_build.log 2>&1 ); then
    echo "fuzz tier skipped: cargo fuzz build failed (see target/.fuzz_build.log)" >&2
    echo "{\"skipped\": \"cargo fuzz build failed\"}" > "$stats"
    return 0
  fi
  local bin="target/x86_64-unknown-linux-gnu/release/seq"
  rm -rf target/fuzz_work; mkdir -p target/fuzz_work
  for i in $(seq 1 $n); do
    mkdir -p "target/fuzz_work/corpus$i"
    ( ARXV_FUZZ_PROPS="$id" "$bin" "target/fuzz_work/corpus$i" -runs="$runs" -seed=$((seed + i)) -max_len=256 -len_control=0 \
        -rss_limit_mb=6000 -artifact_prefix="target/fuzz_work/" -print_final_stats=1 > "target/fuzz_work/out$i.txt" 2>&1 ) &
  done
  wait
  local viol=0 execs=0 cov=0 e c
  for i in $(seq 1 $n); do
    if grep -q "^VIOLATION" "target/fuzz_work/out$i.txt"; then
      grep -E "^VIOLATION|^\[$id:" "target/fuzz_work/out$i.txt" | head -4
      viol=1
    fi
    e=$(grep -E "stat::number_of_executed_units" "target/fuzz_work/out$i.txt" | awk '{print $2}'); execs=$((execs + ${e:-0}))
    c=$(grep -E "cov: [0-9]+" "target/fuzz_work/out$i.txt" | tail -1 | sed -E 's/.*cov: ([0-9]+).*/\1/'); [ "${c:-0}" -gt "$cov" ] && cov=$c
  done
  echo "{\"engine\": \"libFuzzer (cargo-fuzz, sanitizer none)\", \"instances\": $n, \"executions\": $execs, \"max_edge_coverage\": $cov, \"oracle\": \"$id\", \"violation_found\": $viol}" > "$stats"
  echo "[$id] fuzz tier: $execs executions in $n instances, edge coverage $cov, violation=$viol" >&2
  rm -rf target/fuzz_work/corpus*
  return $viol
}
mkdir -p target
case "$1" in
  build) build; exit 0 ;;
  replay) build; exec target/release/arxv replay "$2" ;;
  selftest) build; exec target/release/arxv selftest ;;
  *)
    build
    ID="$1"; TIER="${2:-${VERIF_TIER:-quick}}"
    FUZZ_RC=0
    rm -f "target/fuzz_stats_${ID}.json"
    if [ "$TIER" = thorough ]; then
      case "$ID" in C01|C03|C05|C06|C14|C17) fuzz_tier "$ID"; FUZZ_RC=$? ;; esac
    fi
    target/release/arxv check --property "$ID" --tier "$TIER" "${@:3}"
    RC=$?
    if [ "$FUZZ_RC" = 1 ] && [ "$RC" = 0 ]; then RC=1; fi
    exit $RC
    ;;
esac
