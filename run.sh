#!/bin/bash
# ./run.sh <ID> quick|thorough      -- build from /repo's current working tree, then check
# ./run.sh replay <file>            -- re-run one replay file
# ./run.sh build                    -- build only (MANIFEST.setup_cmd)
cd "$(dirname "$0")" || exit 2
export CARGO_NET_OFFLINE=true
export VERIF_ROOT="$(pwd)"
SRC="${ARX_REPO_SRC:-/repo/src}"
export ARX_REPO_SRC="$SRC"
# content hash of the tree: rebuild the instrumented copy whenever any source byte changed
export ARX_SRC_HASH="$(find "$SRC" -type f -name '*.rs' -print0 | sort -z | xargs -0 cat | sha256sum | cut -d' ' -f1)"
build() {
  if ! cargo build --release --offline -q 2> target/.build.log; then
    cat target/.build.log >&2
    echo "build failed (instrumented copy of $SRC does not compile against the facade): inconclusive" >&2
    exit 2
  fi
}
mkdir -p target
case "$1" in
  build) build; exit 0 ;;
  replay) build; exec target/release/arxv replay "$2" ;;
  selftest) build; exec target/release/arxv selftest ;;
  *)
    build
    exec target/release/arxv check --property "$1" --tier "${2:-${VERIF_TIER:-quick}}" "${@:3}"
    ;;
esac
